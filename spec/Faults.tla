------------------------------- MODULE Faults -------------------------------
(* Property C05, first half: failures of file-system / mmap / HTTP calls.     *)
(*                                                                            *)
(* Relational over RECORDED call sequences.  A fault-free recording run of    *)
(* each API scenario on the current tree logs every shimmed call              *)
(* <<step, op, kind, path class>>; this module takes those sequences as input *)
(* (c05rec.ndjson, one scenario per line), enumerates every single and every  *)
(* pairwise fault plan (call index x errno) and states the class of outcome   *)
(* the documented failure semantics predict for each step of the scenario:    *)
(*                                                                            *)
(*   - a failing read of the mode file behaves as mode "local";               *)
(*   - closing / unmapping is best effort: its failure changes nothing;       *)
(*   - a missing (unreadable) week-end file is recreated: opening may then     *)
(*     succeed or fail, but must do one of the two;                            *)
(*   - any other failure while opening or rotating PARKS the counter file:     *)
(*     error state, no mapping; every later Add only changes the in-memory     *)
(*     amount of its counter and no file (whether a later open / rotate / read *)
(*     may try again is left open);                                            *)
(*   - a failure while the file grows for a new counter leaves that counter's  *)
(*     amount in memory; every other counter keeps being persisted;            *)
(*   - a failure while reading a counter back only fails that read;            *)
(*   - a counter whose name is longer than 4096 bytes cannot be stored: its     *)
(*     amount always stays in memory (and that harms nobody else: a later       *)
(*     growth of the file by another counter still succeeds);                   *)
(*   - the uploader: Run returns, no panic escapes, a count file is deleted    *)
(*     only if a report of its week exists, no other count file is touched.    *)
(*                                                                            *)
(* Whatever the plan: every call returns (no panic, no memory fault, bounded   *)
(* steps) and no OTHER counter's persisted value changes.                      *)
(* Written from the documentation (comments of rotate1/openMapped/weekEnd/Add, *)
(* Dir.Mode, createReport) and the property text, not from the code.           *)
EXTENDS Integers, Sequences, FiniteSets, TLC, Json, SequencesExt

Rec == ndJsonDeserialize("c05rec.ndjson")
(* Rec[s] = [scn, family ("counter" | "upload"), pairs (BOOLEAN), steps: Seq([op, ctr, n, toolong]), *)
(*           (toolong: the counter's name is longer than the 4096 bytes a record can hold;            *)
(*            odd: the name is empty - nothing is specified about counting it)                        *)
(*           calls: Seq([i, step, op, kind, pc, err])]                                              *)

CONSTANTS Errnos,        \* errno names injected for single faults
          PairErrnos     \* set of <<errno, errno>> injected for pairwise plans

NC(s) == Len(Rec[s].calls)
NS(s) == Len(Rec[s].steps)
CallAt(s, i) == Rec[s].calls[i]

(* ---- classes of calls --------------------------------------------------------*)
StartsWith(p, str) == Len(str) >= Len(p) /\ SubSeq(str, 1, Len(p)) = p
Benign(c) == \/ (c.pc = "mode" /\ c.kind = "os.ReadFile")           \* behaves as local
             \/ c.kind \in {"file.Close", "munmap"}                  \* best effort
RotateLike(op) == op \in {"open", "rotate"}
(* the first read of the week-end file of an open/rotate: failure => recreate  *)
FirstWeekendsRead(s, i) ==
    LET c == CallAt(s, i) IN
    /\ c.pc = "weekends" /\ c.kind = "os.ReadFile"
    /\ (i = 1 \/ CallAt(s, i - 1).pc # "weekends" \/ CallAt(s, i - 1).step # c.step)
(* does the step open a file (beyond checking that nothing is to be done)?      *)
StepOpens(s, k) == \E i \in 1..NC(s) : CallAt(s, i).step = k /\ CallAt(s, i).kind = "os.MkdirAll"

(* effect of the failure of call i: none | recreate | park | growth | readerr | unknown *)
Effect(s, i) ==
    LET c == CallAt(s, i) IN
    IF Benign(c) THEN "none"
    ELSE IF c.op = "run" THEN "none"                 \* nothing is predicted for the uploader beyond the universal rules
    ELSE IF c.op = "add" THEN "growth"
    ELSE IF FirstWeekendsRead(s, i) THEN "recreate"
    ELSE IF RotateLike(c.op) THEN "park"
    ELSE IF c.op = "read" THEN
         (IF StartsWith("count:", c.pc) THEN (IF StepOpens(s, c.step) THEN "unknown" ELSE "readerr") ELSE "park")
    ELSE "unknown"

(* ---- fault plans ---------------------------------------------------------------*)
(* a plan is a sequence of <<call index, errno>> with increasing indices            *)
Singles(s) == {<< <<i, e>> >> : i \in 1..NC(s), e \in Errnos}
Pairs(s)   == IF Rec[s].pairs
              THEN UNION {{<< <<ij[1], pe[1]>>, <<ij[2], pe[2]>> >> : pe \in PairErrnos} : ij \in {x \in (1..NC(s)) \X (1..NC(s)) : x[1] < x[2]}}
              ELSE {}
Plans(s)   == {<<>>} \cup Singles(s) \cup Pairs(s)

(* PERSISTENT failures (the directory "found read-only", an unreadable file, a    *)
(* file system that fails altogether): every call that matches fails, each time.  *)
(* A matcher is [m, v]: every call of kind v / on path v / that writes / at all.  *)
(* Its plan lists the matching calls of the recording.                            *)
WriteKinds == {"os.WriteFile", "os.WriteFile.write", "file.Write", "file.WriteAt", "os.MkdirAll", "os.Remove", "os.Rename", "os.Create", "os.OpenFile"}
NoMatcher  == [m |-> "-", v |-> "-"]
Matchers(s) == IF ~Rec[s].persist THEN {}
               ELSE {[m |-> "kind", v |-> CallAt(s, i).kind] : i \in 1..NC(s)} \cup {[m |-> "pc", v |-> CallAt(s, i).pc] : i \in 1..NC(s)}
                    \cup {[m |-> "writes", v |-> "-"], [m |-> "all", v |-> "-"]}
Matches(c, mt) == CASE mt.m = "kind" -> c.kind = mt.v [] mt.m = "pc" -> c.pc = mt.v [] mt.m = "writes" -> c.kind \in WriteKinds [] mt.m = "all" -> TRUE [] OTHER -> FALSE
ErrnoOf(mt) == CASE mt.m = "kind" -> "EIO" [] mt.m = "pc" -> "EACCES" [] mt.m = "writes" -> "EROFS" [] OTHER -> "EIO"
PlanOfMatcher(s, mt) == LET idx == SetToSortSeq({i \in 1..NC(s) : Matches(CallAt(s, i), mt)}, LAMBDA a, b : a < b)
                        IN  [j \in 1..Len(idx) |-> <<idx[j], ErrnoOf(mt)>>]

(* the faults of a plan whose position in the real run is known: the leading ones *)
(* as long as they change nothing, and the first one that does                    *)
RECURSIVE EffPrefix(_, _, _)
EffPrefix(s, plan, j) == IF j > Len(plan) THEN {}
                         ELSE IF Effect(s, plan[j][1]) = "none" THEN {plan[j][1]} \cup EffPrefix(s, plan, j + 1)
                         ELSE {plan[j][1]}
Effective(s, plan) == EffPrefix(s, plan, 1)
(* more faults follow the first one that changes something *)
Unplaced(s, plan) == \E j \in DOMAIN plan : plan[j][1] \notin Effective(s, plan)
(* the step from which nothing can be predicted any more: an unplaced second     *)
(* fault after a first one that did not park the file, or a removal of files     *)
FogFrom(s, plan) ==
    LET rm == {k \in 1..NS(s) : Rec[s].steps[k].op \in {"rmfile", "rmdir"} \/ Rec[s].steps[k].odd}
        f1 == IF Unplaced(s, plan)
              THEN {CallAt(s, i).step : i \in {i \in Effective(s, plan) : Effect(s, i) \in {"recreate", "growth", "readerr", "unknown"}}} ELSE {}
        f2 == {CallAt(s, i).step : i \in {i \in Effective(s, plan) : Effect(s, i) = "unknown"}}
        all == rm \cup f1 \cup f2
    IN  IF all = {} THEN NS(s) + 1 ELSE CHOOSE k \in all : \A k2 \in all : k <= k2

(* ---- prediction: a fold over the steps of the scenario --------------------------*)
(* state = [park: "no"|"yes"|"any", opened: BOOLEAN, stuck: set of counters]         *)
EffectsIn(s, plan, k) == {Effect(s, i) : i \in {i \in Effective(s, plan) : CallAt(s, i).step = k}}

StepState(s, plan, k, st) ==
    LET op == Rec[s].steps[k].op
        es == EffectsIn(s, plan, k)
    IN  IF st.park = "yes" THEN (IF RotateLike(op) \/ op = "read" THEN [st EXCEPT !.park = "any"] ELSE st)
        ELSE IF RotateLike(op) \/ op = "read" THEN
             (IF "park" \in es THEN [st EXCEPT !.park = "yes", !.opened = TRUE]
              ELSE IF "recreate" \in es \/ "unknown" \in es THEN [st EXCEPT !.park = "any", !.opened = TRUE]
              ELSE IF RotateLike(op) THEN [st EXCEPT !.opened = TRUE, !.stuck = IF st.park = "no" THEN {} ELSE st.stuck]
              ELSE st)
        ELSE IF op = "add" /\ "growth" \in es THEN [st EXCEPT !.stuck = st.stuck \cup {Rec[s].steps[k].ctr}]
        ELSE st

ModeOf(s, plan, k, before, after) ==
    LET step == Rec[s].steps[k] IN
    IF step.op # "add" THEN "-"
    ELSE IF step.toolong THEN "memory"
    ELSE IF step.odd THEN "any"                   \* an empty name: the documentation does not say whether it can be counted
    ELSE IF before.park = "yes" THEN "memory"
    ELSE IF before.park = "any" THEN "any"
    ELSE IF ~before.opened THEN "memory"
    ELSE IF "growth" \in EffectsIn(s, plan, k) THEN "memory"
    ELSE IF step.ctr \in before.stuck THEN "any"
    ELSE "persist"

RECURSIVE Fold(_, _, _, _, _)
Fold(s, plan, k, st, acc) ==
    IF k > NS(s) THEN acc
    ELSE LET st2 == StepState(s, plan, k, st)
             fog == k >= FogFrom(s, plan)
             p   == IF Rec[s].family = "upload" THEN [park |-> "-", mode |-> "-"]
                    ELSE IF fog THEN [park |-> IF st2.park = "yes" THEN "yes" ELSE "any", mode |-> IF Rec[s].steps[k].op = "add" THEN (IF st.park = "yes" \/ Rec[s].steps[k].toolong THEN "memory" ELSE "any") ELSE "-"]
                    ELSE [park |-> st2.park, mode |-> ModeOf(s, plan, k, st, st2)]
             st3 == IF fog /\ st2.park # "yes" THEN [st2 EXCEPT !.park = "any"] ELSE st2
         IN  Fold(s, plan, k + 1, st3, Append(acc, p))
Predict(s, plan) == Fold(s, plan, 1, [park |-> "no", opened |-> FALSE, stuck |-> {}], <<>>)

(* ---- enumeration --------------------------------------------------------------- *)
VARIABLES scn, fplan, pred, pm          \* pm: the matcher of a persistent plan, NoMatcher otherwise
vars == <<scn, fplan, pred, pm>>
Init == /\ scn \in 1..Len(Rec)
        /\ \/ fplan \in Plans(scn) /\ pm = NoMatcher
           \/ pm \in Matchers(scn) /\ fplan = PlanOfMatcher(scn, pm)
        /\ pred = Predict(scn, fplan)
Next == UNCHANGED vars
Spec == Init /\ [][Next]_vars

(* ---- sanity theorems about the semantics (checked on every fplan) ---------------- *)
Steps == 1..NS(scn)
TypeOK == /\ Len(pred) = NS(scn)
          /\ \A k \in Steps : pred[k].park \in {"no", "yes", "any", "-"} /\ pred[k].mode \in {"persist", "memory", "any", "-"}
(* a parked file stays parked at least until the next open / rotate / read *)
ParkSticky == \A k \in Steps : (k > 1 /\ pred[k - 1].park = "yes" /\ ~RotateLike(Rec[scn].steps[k].op) /\ Rec[scn].steps[k].op # "read") => pred[k].park = "yes"
ParkedMeansMemory == \A k \in Steps : (Rec[scn].steps[k].op = "add" /\ k > 1 /\ pred[k - 1].park = "yes") => pred[k].mode = "memory"
(* nothing is parked, and nothing stays in memory once the file is open, unless something failed *)
FaultFreePersists ==
    (fplan = <<>> /\ Rec[scn].family = "counter") =>
        \A k \in Steps : k < FogFrom(scn, fplan) =>
            /\ pred[k].park = "no"
            /\ (Rec[scn].steps[k].op = "add" /\ ~Rec[scn].steps[k].toolong /\ ~Rec[scn].steps[k].odd /\ \E j \in 1..(k - 1) : RotateLike(Rec[scn].steps[j].op)) => pred[k].mode = "persist"
(* failures that the documentation declares harmless predict what no failure predicts *)
BenignChangesNothing == (\A j \in DOMAIN fplan : Effect(scn, fplan[j][1]) = "none") => pred = Predict(scn, <<>>)
(* a parked file has a cause: a non-benign failure in an open / rotate / read step at or before it *)
ParkHasCause == \A k \in Steps : pred[k].park = "yes" =>
                    \E j \in DOMAIN fplan : /\ Effect(scn, fplan[j][1]) = "park" /\ CallAt(scn, fplan[j][1]).step <= k
(* a growth failure keeps exactly that counter in memory: other counters added later are persisted *)
GrowthIsLocal ==
    (Len(fplan) = 1 /\ Effect(scn, fplan[1][1]) = "growth") =>
        \A k \in Steps : (Rec[scn].steps[k].op = "add" /\ ~Rec[scn].steps[k].toolong /\ ~Rec[scn].steps[k].odd /\ k < FogFrom(scn, fplan) /\ Rec[scn].steps[k].ctr # Rec[scn].steps[CallAt(scn, fplan[1][1]).step].ctr
                          /\ \E j \in 1..(k - 1) : RotateLike(Rec[scn].steps[j].op)) => pred[k].mode = "persist"
(* a second fault that cannot be placed never makes the prediction sharper than the first alone *)
PairNoSharper ==
    (Len(fplan) = 2 /\ Effect(scn, fplan[1][1]) = "park") => pred = Predict(scn, <<fplan[1]>>)
(* a name that cannot be stored is kept in memory whatever else happens *)
TooLongInMemory == \A k \in Steps : (Rec[scn].steps[k].op = "add" /\ Rec[scn].steps[k].toolong) => pred[k].mode = "memory"
(* a persistent failure is at least as bad as its first effective failure alone: where the  *)
(* single fault parks the file, so does the persistent one                                    *)
PersistentParks ==
    (pm # NoMatcher /\ Len(fplan) > 0) =>
        \A i \in Effective(scn, fplan) : Effect(scn, i) = "park" =>
            pred[CallAt(scn, i).step].park = "yes"
Sane == TypeOK /\ PersistentParks /\ TooLongInMemory /\ ParkSticky /\ ParkedMeansMemory /\ FaultFreePersists /\ BenignChangesNothing /\ ParkHasCause /\ GrowthIsLocal /\ PairNoSharper
=============================================================================
