SPECIFICATION Spec
INVARIANTS FoldAgrees BlankIrrelevant RecordCount ValuesKept IssueOrder JunkUnspecified
CHECK_DEADLOCK FALSE
CONSTANTS
  MaxLines = 4
  WalkKeys = {"title", "issue", "depth"}
