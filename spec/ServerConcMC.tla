---- MODULE ServerConcMC ----
(* the requests of the concurrent runs: the primary upload (sent several     *)
(* times), uploads of other names, refused requests                          *)
EXTENDS ServerConc
BadWeek == [PReq EXCEPT !.week = Iso(2023, 2, 30)]
OtherX == [PReq EXCEPT !.x = XC("nonzero", "0.25", "0.25")]
Big == [PReq EXCEPT !.lenc = "lim+1", !.len = MCLimit + 1, !.pad = "lastweek"]
Get == [PReq EXCEPT !.method = "GET"]
MCConc == {PReq, Pre1, Pre2, OtherX, BadWeek, Big, Get}
====
