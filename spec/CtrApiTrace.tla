---------------------------- MODULE CtrApiTrace ----------------------------
(* code -> model (X03): a recorded execution of the real, instrumented       *)
(* internal/counter -- one line per scheduling step with the projection of    *)
(* the real state after the step -- is a behaviour of CtrApi.tla iff TLC can   *)
(* follow it: every logged step is the step of the logged task and the        *)
(* model's shared variables equal the projection.  Runs of one scenario       *)
(* family are concatenated; a line with t = "init" resets the model.          *)
EXTENDS CtrApi, Json

Trace == ndJsonDeserialize("x03trace.ndjson")
VARIABLE l            \* index of the next line to consume

ToSet(s) == {s[i] : i \in DOMAIN s}
Matches(o) == /\ stacks = o.stacks /\ smu = o.smu /\ nxt = o.nxt /\ head = o.head /\ cur = o.cur
              /\ clock = o.clock /\ hp = o.hp /\ mem = o.mem /\ disk = o.disk
              /\ closed = ToSet(o.closed) /\ begun = o.begun /\ done = o.done

TInit == Init /\ l = 2
Reset == /\ l <= Len(Trace) /\ Trace[l].t = "init"
         /\ stacks' = <<>> /\ smu' = "none"
         /\ nxt' = [c \in Ctrs |-> NIL] /\ head' = NIL
         /\ cur' = (IF InitOpen THEN 1 ELSE 0) /\ fspan' = (IF InitOpen THEN 1 ELSE 0) /\ clock' = 1
         /\ hp' = [c \in Ctrs |-> NOPTR] /\ mem' = [c \in Ctrs |-> 0]
         /\ disk' = [f \in 1..2 |-> [c \in Ctrs |-> 0]] /\ closed' = {}
         /\ pc' = [t \in Tasks |-> "start"] /\ k' = [t \in Tasks |-> 0] /\ loc' = [t \in Tasks |-> Loc0]
         /\ begun' = [c \in Ctrs |-> 0] /\ done' = [c \in Ctrs |-> 0]
         /\ snap' = [t \in Observers |-> <<>>]
         /\ l' = l + 1
Consume == /\ l <= Len(Trace) /\ Trace[l].t \in Tasks
           /\ Step(Trace[l].t)
           /\ l' = l + 1
Finished == /\ l = Len(Trace) + 1 /\ UNCHANGED <<vars, l>>
TNext == Reset \/ Consume \/ Finished
TSpec == TInit /\ [][TNext]_<<vars, l>>

(* the model state after a logged step is the projection of the real state *)
Conform == Matches(Trace[l - 1])
=============================================================================
