---------------------------- MODULE SidecarTrace ----------------------------
(* code -> model for the token race of C16: recorded interleavings of the    *)
(* real acquireUploadToken (one line per system call, with the token file    *)
(* as an independent os.Stat sees it afterwards, the call the task is        *)
(* suspended in front of next, and its result once it returned) must be      *)
(* behaviours of Sidecar.tla; the property clause is evaluated by TLC on     *)
(* the observed results of every run.                                        *)
EXTENDS Sidecar, Json

Trace == ndJsonDeserialize("c16trace.ndjson")
VARIABLE l

PcClass(pc) == IF pc \in {"t_stat", "t_remove", "t_create", "killed"} THEN pc ELSE "ret"
Root(name, up) == [born |-> "unset", marker |-> "unset", env |-> <<>>, role |-> "app", crash |-> FALSE, upload |-> up, upvar |-> FALSE,
                   pc |-> IF up THEN "t_stat" ELSE "done", seen |-> "none", acq |-> FALSE]

TInit == /\ mode = "on" /\ initToken = "absent" /\ localOK = TRUE
         /\ cfg = [s \in Starters |-> [marker |-> "unset", crash |-> FALSE, upload |-> TRUE, leak |-> FALSE]]
         /\ token = "absent" /\ local = "present" /\ wrote = {} /\ ev = {}
         /\ procs = [id \in {<<s>> : s \in Starters} |-> Root(id[1], FALSE)]
         /\ nf = 0 /\ l = 1
Reset == /\ l <= Len(Trace) /\ Trace[l].t = "init"
         /\ initToken' = Trace[l].init /\ token' = Trace[l].init
         /\ procs' = [id \in {<<s>> : s \in Starters} |-> Root(id[1], \E k \in 1..Len(Trace[l].starters) : Trace[l].starters[k] = id[1])]
         /\ wrote' = {} /\ ev' = {} /\ nf' = 0
         /\ UNCHANGED <<mode, localOK, cfg, local>>
         /\ l' = l + 1
(* a line with fault = TRUE is a system call the harness made fail (Stat with  *)
(* an I/O error, Remove and the create with a permission error); a "kill"     *)
(* line is a starter that is never resumed                                    *)
Consume == /\ l <= Len(Trace) /\ Trace[l].t \in Starters
           /\ IF Trace[l].fault THEN FaultStep(<<Trace[l].t>>) ELSE TokenStep(<<Trace[l].t>>)
           /\ l' = l + 1
Killed == /\ l <= Len(Trace) /\ Trace[l].t = "kill"
          /\ Kill(<<Trace[l].victim>>)
          /\ l' = l + 1
Finished == l = Len(Trace) + 1 /\ UNCHANGED <<vars, l>>
TNext == Reset \/ Consume \/ Killed \/ Finished
TSpec == TInit /\ [][TNext]_<<vars, l>>

Matches(o) == /\ token = o.token
              /\ o.t \in Starters => /\ PcClass(procs[<<o.t>>].pc) = o.next
                                     /\ (o.next = "ret" => procs[<<o.t>>].acq = o.acq)
Conform == l > 1 => Matches(Trace[l - 1])

(* the property on the OBSERVED results: per run, with no stale token        *)
(* present, at most one acquisition (a fresh token counts as one)            *)
Inits == {i \in 1..Len(Trace) : Trace[i].t = "init"}      \* an init line carries the index of its run's last line
AcqOf(i) == Cardinality({j \in (i + 1)..Trace[i].last : Trace[j].next = "ret" /\ Trace[j].acq})
ObsAtMostOne(i) == Trace[i].init # "stale" => (IF Trace[i].init = "fresh" THEN 1 ELSE 0) + AcqOf(i) <= 1
ObsBad == {Trace[i].run : i \in {j \in Inits : ~ObsAtMostOne(j)}}
ObsStaleDouble == {Trace[i].run : i \in {j \in Inits : Trace[j].init = "stale" /\ AcqOf(j) >= 2}}
ASSUME PrintT(<<"C16BAD", ObsBad, ObsStaleDouble>>)
=============================================================================
