SPECIFICATION Spec
CHECK_DEADLOCK FALSE
VIEW View
INVARIANTS EndToEnd StoreIsApprovedSubset StoreValid MarkersMatchStore SpansOK TypeOK TablesAgree
PROPERTIES SendOnlyWithConsent NothingInModeOff LocalReportsComplete IncLands MergeFaithful ChartCounts
CONSTANTS
 Builds <- MCBuilds
 BuildRec <- MCBuildRec
 Names <- MCNames
 Chars <- MCChars
 Carry <- MCCarry
 Cfg <- MCCfg
 D = 8
 ChartDesc <- MCChartDesc
 InitModes <- MCInitModes
 Anchors = {19767}
 Horizon = 16
 WeekEnds = {4}
 TickKinds = {"half", "wkend"}
 SetModes = {"on", "off"}
 Xs = {2, 5}
 MaxInc = 2
 MaxRun = 1
 MaxDown = 0
 MaxSet = 1
 MaxWork = 2
 Phased = TRUE
