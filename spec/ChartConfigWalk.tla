-------------------------- MODULE ChartConfigWalk --------------------------
(* Enumeration of texts line by line (C17, model -> code): every sequence   *)
(* of at most MaxLines abstract lines over a small alphabet of line kinds;  *)
(* a sequence that has left the documented syntax is not extended further.  *)
(* Each state is one text together with its meaning ParseLines(lines); the  *)
(* driver concretizes it (random values, white space, comments, comma       *)
(* styles, key assignment) and feeds it to the real Parse.                  *)
EXTENDS ChartConfig, TLC
CONSTANTS MaxLines,
          WalkKeys      \* the field keys used by the walk (a subset of AllKeys \ {"counter"})

Tok == <<"v1", "v2", "v3", "v4", "v5", "v6", "v7", "v8">>
Bk == <<"b1", "b2", "b3", "b4", "b5", "b6", "b7", "b8">>

(* the lines that may be written at position i; values are unique per line *)
Alphabet(i) ==
    {Line("sep", "", "", <<>>), Line("blank", "", "", <<>>), Line("junk", "", "", <<>>)}
    \cup {Line("field", k, IF k \in NumKeys THEN "7" ELSE Tok[i], <<>>) : k \in WalkKeys}
    \cup {Line("field", "counter", Tok[i], <<>>),               \* plain counter
          Line("field", "counter", Tok[i], <<Bk[i]>>),          \* prefix{b} on one line
          Line("copen", "counter", Tok[i], <<>>),                          \* counter:prefix{
          LineC("copen", "counter", Tok[i], <<Bk[i]>>, FALSE, TRUE),       \* counter:prefix{b,
          LineC("copen", "counter", Tok[i], <<Bk[i]>>, FALSE, FALSE),      \* counter:prefix{b
          Line("cclose", "", "", <<>>),                                    \* }
          LineC("cclose", "", "", <<Bk[i]>>, FALSE, FALSE),                \* b}
          LineC("cclose", "", "", <<Bk[i]>>, TRUE, FALSE)}                 \* ,b}
    \cup {LineC("cmid", "", "", <<Bk[i]>>, ld, tr) : ld, tr \in BOOLEAN}   \* [,]b[,]

VARIABLES lines, res
vars == <<lines, res>>

St == Fold(S0, lines)        \* the reader's state after the lines written so far
Init == lines = <<>> /\ res = Finish(S0)
Next == /\ Len(lines) < MaxLines
        /\ St.ok
        /\ \E ln \in Alphabet(Len(lines) + 1) :
              /\ lines' = Append(lines, ln)
              /\ res' = Finish(Step(St, ln))
Spec == Init /\ [][Next]_vars

(* ---- sanity theorems about the syntax, checked on every enumerated text ---- *)
Count(k) == Cardinality({i \in 1..Len(lines) : lines[i].k = k})
FieldLines == {i \in 1..Len(lines) : lines[i].k = "field" \/ lines[i].k = "cclose"}

(* the incremental meaning is the meaning of the whole text *)
FoldAgrees == res = ParseLines(lines)
(* white space and comments never matter: removing the blank lines keeps the meaning *)
NoBlank == SelectSeq(lines, LAMBDA ln : ln.k # "blank")
BlankIrrelevant == ParseLines(NoBlank) = res
(* records never outnumber the separators + 1, nor the field lines; no record is empty *)
RecordCount == res.ok => /\ Len(res.recs) <= Count("sep") + 1
                         /\ Len(res.recs) <= Cardinality(FieldLines)
(* every value written by a field line is found in exactly one record, in the field of its key *)
ValuesKept == res.ok =>
    \A i \in 1..Len(lines) : lines[i].k = "field" =>
        LET ln == lines[i]
            has(r) == IF ln.key = "issue" THEN ln.val \in Rng(r.issue)
                      ELSE IF ln.key = "counter" THEN r.counter = [pre |-> ln.val, bs |-> ln.bs]
                      ELSE r[ln.key] = ln.val
        IN IF ln.key \in NumKeys THEN \E j \in 1..Len(res.recs) : has(res.recs[j])
           ELSE Cardinality({j \in 1..Len(res.recs) : has(res.recs[j])}) = 1
(* issues keep their order *)
IssueOrder == res.ok =>
    LET iss == SelectSeq(lines, LAMBDA ln : ln.k = "field" /\ ln.key = "issue")
        RECURSIVE Cat(_)
        Cat(rs) == IF rs = <<>> THEN <<>> ELSE Head(rs).issue \o Cat(Tail(rs))
    IN Cat(res.recs) = [i \in 1..Len(iss) |-> iss[i].val]
(* junk is never specified *)
JunkUnspecified == Count("junk") > 0 => ~res.ok
=============================================================================
