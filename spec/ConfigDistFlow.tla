--------------------------- MODULE ConfigDistFlow ---------------------------
(* X02, model -> code for G1/G2: every list of at most MaxRecs validated     *)
(* chart records over a few programs (toolchain programs with Go versions,   *)
(* module programs with semantic versions), counter expressions (bare name,  *)
(* name:bucket, name:{b1,...,bn}), depths and minimum versions, together     *)
(* with what the specification demands of the Config made from the generated *)
(* upload configuration:                                                     *)
(*   present[p]   HasProgram                                                 *)
(*   minv[p]      smallest minimum version (NoVer: all versions)             *)
(*   elig[p]      known versions that must be listed                         *)
(*   ctr[p]       exactly the counter names HasCounter accepts               *)
(*   stk[p]       exactly the stack names HasStack accepts                   *)
(*   pfx[p]       chart names HasCounterPrefix must know                     *)
(*   act[p]       chart names that may be "active" at all                    *)
(*   klass[p]     the input is in the class of the known finding X02-F1      *)
(* The module also contains two DESIGNS of the version list of a module      *)
(* program -- filter by the minimum version and then pad (as built), pad and *)
(* then filter (the proposed repair) -- over a sketch of the padding         *)
(* heuristic, and TLC checks for every enumerated input that the repaired    *)
(* design satisfies G2 while the design as built violates it only in the     *)
(* class MinAboveReleases (and does violate it there: cfg with NoWitness).   *)
EXTENDS ConfigDist, TLC
CONSTANTS MaxRecs,
          Progs, Tools,         \* program ids; Tools \subseteq Progs are toolchain programs
          Exprs,                \* counter expressions [chart, bks]
          StackExprs,           \* expressions a stack record may carry (bare names)
          Depths,               \* depth values, containing 0
          MinsTool, MinsMod,    \* minimum versions a record may carry (incl. NoVer)
          KnownOf,              \* [Progs -> SUBSET versions]: what the proxy lists
          Pad                   \* padding [rel, maj, majmin, patch, pre]

RecSpace == {r \in [prog : Progs, chart : {e.chart : e \in Exprs}, bks : {e.bks : e \in Exprs}, depth : Depths,
                    min : MinsTool \cup MinsMod] :
               /\ [chart |-> r.chart, bks |-> r.bks] \in (IF r.depth = 0 THEN Exprs ELSE StackExprs)
               /\ r.min \in (IF r.prog \in Tools THEN MinsTool ELSE MinsMod)}

VARIABLES recs, present, minv, elig, ctr, stk, pfx, act, klass
vars == <<recs, present, minv, elig, ctr, stk, pfx, act, klass>>

Charts == {e.chart : e \in Exprs}
AllNames == UNION {Names([chart |-> e.chart, bks |-> e.bks]) : e \in Exprs}

Init == /\ recs \in UNION {[1..n -> RecSpace] : n \in 1..MaxRecs}
        /\ present = [p \in Progs |-> p \in ProgsOf(recs)]
        /\ minv = [p \in Progs |-> IF p \in ProgsOf(recs) THEN MinVer(recs, p) ELSE NoVer]
        /\ elig = [p \in Progs |-> IF p \in ProgsOf(recs) THEN Eligible(recs, p, KnownOf[p]) ELSE {}]
        /\ ctr = [p \in Progs |-> {n \in AllNames : AcceptCounter(recs, p, n)}]
        /\ stk = [p \in Progs |-> {n \in AllNames : AcceptStack(recs, p, n)}]
        /\ pfx = [p \in Progs |-> {c \in Charts : PrefixKnown(recs, p, c)}]
        /\ act = [p \in Progs |-> {c \in Charts : ChartActive(recs, p, c)}]
        /\ klass = [p \in Progs |-> p \in ProgsOf(recs) /\ p \notin Tools /\ MinAboveReleases(recs, p, KnownOf[p])]
Next == UNCHANGED vars
Spec == Init /\ [][Next]_vars

(* ---- a sketch of the padding heuristic: the next releases after the      *)
(* newest release of S, each with its first pre-release                     *)
PadSet(S) ==
    LET top == LatestRelease(S)
        rels == (IF Pad.rel >= 1 /\ Pad.patch >= 1 THEN {NextPatch(top)} ELSE {})
                \cup (IF Pad.rel >= 1 /\ Pad.majmin >= 1 THEN {NextMinor(top)} ELSE {})
                \cup (IF Pad.rel >= 1 /\ Pad.maj >= 1 /\ Pad.majmin >= 1 THEN {NextMajor(top)} ELSE {})
    IN (rels \ S) \cup (IF Pad.pre >= 1 THEN {<<v[1], v[2], v[3], 1>> : v \in rels \ S} ELSE {})

RECURSIVE Sorted(_)
Sorted(S) == IF S = {} THEN <<>> ELSE LET m == MinV(S) IN <<m>> \o Sorted(S \ {m})

(* as built: filter the known versions by the minimum, then pad what is left *)
AsBuilt(p) == LET E == Eligible(recs, p, KnownOf[p]) IN E \cup PadSet(E)
(* repaired: pad the known versions, then filter by the minimum *)
Repaired(p) == {v \in KnownOf[p] \cup PadSet(KnownOf[p]) : AtLeast(v, MinVer(recs, p))}

ModProgs == ProgsOf(recs) \ Tools
RepairedSatisfiesG2 == \A p \in ModProgs : ListedOK(recs, p, KnownOf[p], Sorted(Repaired(p)), Pad, FALSE)
AsBuiltFailsOnlyInClass == \A p \in ModProgs :
    ~ListedOK(recs, p, KnownOf[p], Sorted(AsBuilt(p)), Pad, FALSE) => MinAboveReleases(recs, p, KnownOf[p])
(* witness of the finding at design level (expected to be violated) *)
NoWitness == \A p \in ModProgs : ListedOK(recs, p, KnownOf[p], Sorted(AsBuilt(p)), Pad, FALSE)
ToolListIsEligible == \A p \in ProgsOf(recs) \cap Tools :
    ListedOK(recs, p, KnownOf[p], Sorted(Eligible(recs, p, KnownOf[p])), Pad, TRUE)

(* ---- sanity theorems of G1 ---- *)
Perms(n) == {f \in [1..n -> 1..n] : \A i, j \in 1..n : i # j => f[i] # f[j]}
OrderIndependent ==
    \A f \in Perms(Len(recs)) :
        LET rs == [i \in 1..Len(recs) |-> recs[f[i]]] IN
        \A p \in Progs : /\ {n \in AllNames : AcceptCounter(rs, p, n)} = ctr[p]
                         /\ {n \in AllNames : AcceptStack(rs, p, n)} = stk[p]
                         /\ (p \in ProgsOf(recs) => MinVer(rs, p) = minv[p])
(* a program's tables depend on its own records only *)
Confined == \A p \in Progs :
    LET own == SelectSeq(recs, LAMBDA r : r.prog = p) IN
        /\ ctr[p] = {n \in AllNames : AcceptCounter(own, p, n)}
        /\ stk[p] = {n \in AllNames : AcceptStack(own, p, n)}
        /\ (p \notin ProgsOf(recs) => ctr[p] = {} /\ stk[p] = {} /\ ~present[p])
(* adding a record never takes anything away *)
Monotone == \A n \in 1..Len(recs) : LET h == SubSeq(recs, 1, n) IN
    \A p \in ProgsOf(h) : /\ {x \in AllNames : AcceptCounter(h, p, x)} \subseteq ctr[p]
                          /\ Eligible(h, p, KnownOf[p]) \subseteq elig[p]
(* an expression with n buckets names exactly n counters, a bare name one *)
ExpansionCount == \A i \in DOMAIN recs :
    Cardinality(Names(recs[i])) = IF recs[i].bks = <<>> THEN 1 ELSE Cardinality(Rng(recs[i].bks))
PrefixImpliesActive == \A p \in Progs : pfx[p] \subseteq act[p]
=============================================================================
