------------------------------- MODULE Worker -------------------------------
(* The merge/chart worker of the telemetry server as a state machine over   *)
(* its three buckets (property C13).                                        *)
(*                                                                          *)
(*   up[d][o]  the report stored under object name o of day d (0: none);    *)
(*             a report is an index into Pool                               *)
(*   mg[d]     the merged object of day d: absent, or the sequence of       *)
(*             report lines in the order the storage listed the objects     *)
(*             (any order: the listing order is not part of the contract)   *)
(*   ch[r]     the chart object of date range r = <<start, end>>            *)
(*   resp      what the last request answered                               *)
(*   out       the chart object the last request wrote (NoChart: none)      *)
(*                                                                          *)
(* The chart action is written operationally (ChartFold: read the lines in  *)
(* order and group them); the properties compare it with the declarative    *)
(* ChartOf, which is a function of the set of reports only.                 *)
EXTENDS WorkerChart

CONSTANTS NDays,      \* days are 1..NDays, consecutive calendar days
          Objs,       \* object names available under one day
          Pool,       \* sequence of report shapes [id, big, carries]
          Charts,     \* the configuration (set of chart descriptors)
          MaxUp,      \* bound on uploads in a behaviour
          MaxSteps,   \* bound on merge/chart requests in a behaviour
          Weekly,     \* TRUE: days are merged all at once (the daily task queue: "merge the
                      \* previous 7 days"), FALSE: one merge request at a time
          ChartLens   \* the range lengths (end - start) that are charted (daily: 0, weekly: 6, ...)

ASSUME WellFormed(Charts)
(* sorting the keys by rank, from whatever order they come in, gives the    *)
(* declaratively specified listing: the order is total                      *)
ASSUME SortedOrder(Charts) = ListingOrder(Charts)

Days == 1..NDays
Ranges == {r \in Days \X Days : r[1] <= r[2] /\ (r[2] - r[1]) \in ChartLens}
PoolIx == 1..Len(Pool)
NoMerge == [ok |-> FALSE, lines |-> <<>>]
NoChart == [num |-> -1, val |-> [t \in Triples(Charts) |-> 0]]

VARIABLES up, mg, ch, resp, out, last, nUp, nSteps,
          listing    \* the order in which every chart object lists its data points (never changes)
vars == <<up, mg, ch, resp, out, last, nUp, nSteps, listing>>

Init == /\ up = [d \in Days |-> [o \in Objs |-> 0]]
        /\ mg = [d \in Days |-> NoMerge]
        /\ ch = [r \in Ranges |-> NoChart]
        /\ resp = [code |-> 0, n |-> 0]
        /\ out = NoChart
        /\ last = [op |-> "init", a |-> 0, b |-> 0, c |-> 0]
        /\ nUp = 0 /\ nSteps = 0
        /\ listing = ListingOrder(Charts)

(* the upload server stores a report under <day>/<name>; storing again under *)
(* the same name replaces the object                                         *)
Upload(d, o, i) ==
    /\ nUp < MaxUp
    /\ up' = [up EXCEPT ![d][o] = i]
    /\ nUp' = nUp + 1
    /\ last' = [op |-> "upload", a |-> d, b |-> o, c |-> i]
    /\ resp' = [code |-> 200, n |-> 0]
    /\ out' = NoChart
    /\ UNCHANGED <<mg, ch, nSteps, listing>>

Stored(d) == {o \in Objs : up[d][o] # 0}
Orders(S) == {f \in [1..Cardinality(S) -> S] : \A i, j \in 1..Cardinality(S) : i # j => f[i] # f[j]}

(* merge: one line per object stored for the day, in listing order *)
Merge(d) ==
    /\ ~Weekly
    /\ nSteps < MaxSteps
    /\ \E ord \in Orders(Stored(d)) :
          mg' = [mg EXCEPT ![d] = [ok |-> TRUE, lines |-> [k \in 1..Cardinality(Stored(d)) |-> up[d][ord[k]]]]]
    /\ resp' = [code |-> 200, n |-> Cardinality(Stored(d))]
    /\ out' = NoChart
    /\ last' = [op |-> "merge", a |-> d, b |-> 0, c |-> 0]
    /\ nSteps' = nSteps + 1
    /\ UNCHANGED <<up, ch, nUp, listing>>

(* the task queue merges every day; each day lists its objects in the same  *)
(* (arbitrary) priority order of the object names                           *)
InOrder(pri, S) == SelectSeq(pri, LAMBDA o : o \in S)
MergeAll ==
    /\ Weekly
    /\ nSteps < MaxSteps
    /\ \E pri \in Orders(Objs) :
          mg' = [d \in Days |-> [ok |-> TRUE, lines |-> [k \in 1..Cardinality(Stored(d)) |-> up[d][InOrder(pri, Stored(d))[k]]]]]
    /\ resp' = [code |-> 200, n |-> 0]
    /\ out' = NoChart
    /\ last' = [op |-> "mergeall", a |-> 0, b |-> 0, c |-> 0]
    /\ nSteps' = nSteps + 1
    /\ UNCHANGED <<up, ch, nUp, listing>>

RECURSIVE Cat(_, _)
Cat(s, e) == IF s > e THEN <<>> ELSE mg[s].lines \o Cat(s + 1, e)
ShapeSeq(ix) == [k \in 1..Len(ix) |-> Pool[ix[k]]]

(* chart: read every merged day of the range; a missing day is Not Found and *)
(* nothing is written                                                        *)
Chart(s, e) ==
    /\ nSteps < MaxSteps
    /\ IF \E d \in s..e : ~mg[d].ok
       THEN /\ resp' = [code |-> 404, n |-> 0]
            /\ ch' = ch
            /\ out' = NoChart
       ELSE /\ ch' = [ch EXCEPT ![<<s, e>>] = ChartFold(ShapeSeq(Cat(s, e)), Charts)]
            /\ out' = ch'[<<s, e>>]
            /\ resp' = [code |-> 200, n |-> Len(Cat(s, e))]
    /\ last' = [op |-> "chart", a |-> s, b |-> e, c |-> 0]
    /\ nSteps' = nSteps + 1
    /\ UNCHANGED <<up, mg, nUp, listing>>

Next == \/ \E d \in Days, o \in Objs, i \in PoolIx : Upload(d, o, i)
        \/ \E d \in Days : Merge(d)
        \/ MergeAll
        \/ \E r \in Ranges : Chart(r[1], r[2])
Spec == Init /\ [][Next]_vars

(* ------------------------------ properties ------------------------------ *)
Occ(seq, i) == Cardinality({k \in 1..Len(seq) : seq[k] = i})

(* Merging a day yields exactly one record per report stored for that day   *)
(* (whatever the size class of the reports).                                *)
(* The number of stored reports is not bounded by any resource of the       *)
(* serving process: Merge is enabled for every Stored(d) and reads the      *)
(* objects one after the other.  The driver therefore also merges a day     *)
(* that has more reports than the process may hold open descriptors         *)
(* (soft RLIMIT_NOFILE lowered to 32 around the handlers, 45-60 reports).   *)
MergeOnePerStored ==
    [][last'.op = "merge" =>
         LET d == last'.a IN
         /\ mg'[d].ok
         /\ Len(mg'[d].lines) = Cardinality(Stored(d))
         /\ \A i \in PoolIx : Occ(mg'[d].lines, i) = Cardinality({o \in Objs : up[d][o] = i})
         /\ \A x \in Days \ {d} : mg'[x] = mg[x]]_vars
MergeAllOnePerStored ==
    [][last'.op = "mergeall" =>
         \A d \in Days : /\ mg'[d].ok
                          /\ Len(mg'[d].lines) = Cardinality(Stored(d))
                          /\ \A i \in PoolIx : Occ(mg'[d].lines, i) = Cardinality({o \in Objs : up[d][o] = i})]_vars

(* NumReports equals the count of merged reports of the range and each      *)
(* partition value is the number of distinct IDs carrying the bucket: the   *)
(* declarative ChartOf over the SET of reports -- hence independent of the  *)
(* order of the lines (Merge picked an arbitrary one).                      *)
ChartExact ==
    [][(last'.op = "chart" /\ resp'.code = 200) =>
         LET s == last'.a  e == last'.b  ix == Cat(s, e) IN
         /\ ch'[<<s, e>>] = ChartOf({Pool[ix[k]] : k \in 1..Len(ix)}, Len(ix), Charts)
         /\ out' = ch'[<<s, e>>]
         /\ resp'.n = Len(ix)
         /\ \A r \in Ranges \ {<<s, e>>} : ch'[r] = ch[r]]_vars

(* a missing day is reported as not found rather than charted as empty *)
MissingDayNotFound ==
    [][last'.op = "chart" =>
         /\ (resp'.code = 404) <=> (\E d \in last'.a..last'.b : ~mg[d].ok)
         /\ (resp'.code = 404) => (ch' = ch /\ out' = NoChart)]_vars

(* state invariants: a chart never counts more IDs than exist / than reports read *)
IDs == {Pool[i].id : i \in PoolIx}
ValuesBounded == \A r \in Ranges : ch[r].num >= 0 =>
                    \A t \in Triples(Charts) : ch[r].val[t] <= ch[r].num /\ ch[r].val[t] <= Cardinality(IDs)
TypeOK == /\ \A d \in Days, o \in Objs : up[d][o] \in 0..Len(Pool)
          /\ \A d \in Days : mg[d].ok \in BOOLEAN /\ \A k \in 1..Len(mg[d].lines) : mg[d].lines[k] \in PoolIx
          /\ resp.code \in {0, 200, 404}
=============================================================================
