CONSTANTS ND = 3
          NI = 3
          MaxLen = 0
INIT TInit
NEXT TNext
INVARIANT AllExplainedG5
POSTCONDITION Accepted
CHECK_DEADLOCK FALSE
