SPECIFICATION Spec
INVARIANT AnswerIsCurrent
PROPERTY ReadsChangeNothing
CHECK_DEADLOCK FALSE
CONSTANTS
 Days = {1, 2, 3}
 MaxSteps = 40
