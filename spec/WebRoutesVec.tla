---------------------------- MODULE WebRoutesVec ----------------------------
(* X01, model -> code: every (chart bucket, merged bucket, request) of the  *)
(* small universe with the answer G5 demands.                               *)
EXTENDS WebRoutes
VARIABLES chart, merged, req, ans
vars == <<chart, merged, req, ans>>
Init == /\ chart \in SUBSET ChartUniverse
        /\ merged \in SUBSET MergedUniverse
        /\ req \in Reqs
        /\ ans = Answer(chart, merged, req)
Next == UNCHANGED vars
Sane == /\ IndexShowsLatest(chart)
        /\ IndexPrefersAggregate(chart)
        /\ (req.k = "index" /\ ans.what = "nodata") <=> (req.k = "index" /\ Charts(chart) = {})
        /\ req.k = "charts" => Junk \notin ans.objs
=============================================================================
