\* reference configuration (checks/c14.py generates the same text; thorough uses VIEW ViewFull)
SPECIFICATION Spec
INVARIANTS Agree RepIgnored SymTextOK CapOK EraseOK OnlyContribution TrapRule
PROPERTIES PostStable
VIEW View
CHECK_DEADLOCK FALSE
CONSTANTS
  MaxLen = 40
  Prefixes <- PrefixEmpty
