SPECIFICATION Spec
INVARIANTS Agree CapOK EraseOK OnlyContribution TrapRule
PROPERTIES PostStable
VIEW View
CHECK_DEADLOCK FALSE
CONSTANTS
  MaxLen = 40
  Prefixes <- PrefixEmpty
