SPECIFICATION Spec
INVARIANTS OnlyPublished ExactIsExact LatestIsNewest NeverPartial NoSilentFallback
PROPERTIES Immutable CountedOnce
CHECK_DEADLOCK FALSE
CONSTANTS
 NV = 4
 Releases = {1, 3}
 Contents = {"ok", "badjson", "nofile", "badtype"}
 MaxOps = 5
