----------------------------- MODULE CtrApiFile -----------------------------
(***************************************************************************)
(* X03, guarantee G3 (second half): countertest.ReadFile / counter.ReadFile *)
(* on a counter file written by ANOTHER process.  "ReadFile reads the       *)
(* counters and stack counters from the given file": the result is a        *)
(* function of the set of records only (not of their order, their chains or *)
(* the number of pages); a record whose name contains no newline is a       *)
(* counter under its name; a record whose name contains a newline is a      *)
(* stack counter under its DECODED name ("stack counters look like regular  *)
(* counters with names that include newlines"; a line whose import path is  *)
(* the ditto mark repeats the import path of the closest earlier line that  *)
(* has one); values are reported exactly; the file is not modified.         *)
(*                                                                         *)
(* A record is [kind, id, lines, v]: plain records have an id; a stack      *)
(* record has a counter name id and lines <<pkg, fn>> with pkg = 0 for the  *)
(* ditto mark.  TLC enumerates every file made of up to MaxRecs records of  *)
(* the pool (each state is one file with its expected view).                *)
(***************************************************************************)
EXTENDS Integers, Sequences, FiniteSets, TLC

CONSTANTS MaxRecs, Values

Line(p, f) == <<p, f>>
Pool ==
  {[kind |-> "plain", id |-> i, lines |-> <<>>] : i \in 1..2}
  \cup {[kind |-> "stack", id |-> 1, lines |-> <<Line(1, "f")>>],
        [kind |-> "stack", id |-> 1, lines |-> <<Line(1, "f"), Line(0, "g")>>],
        [kind |-> "stack", id |-> 1, lines |-> <<Line(1, "f"), Line(2, "g")>>],
        [kind |-> "stack", id |-> 2, lines |-> <<Line(1, "f"), Line(0, "g"), Line(0, "h")>>],
        [kind |-> "stack", id |-> 2, lines |-> <<Line(2, "f"), Line(1, "g"), Line(0, "f")>>]}

(* the import path a ditto mark at line i stands for *)
RECURSIVE LastPkg(_, _)
LastPkg(lines, i) == IF i = 0 THEN 0 ELSE IF lines[i][1] # 0 THEN lines[i][1] ELSE LastPkg(lines, i - 1)
Decode(lines) == [i \in 1..Len(lines) |-> IF lines[i][1] = 0 THEN Line(LastPkg(lines, i), lines[i][2]) ELSE lines[i]]

VARIABLES recs,      \* the file: a set of [r |-> pool element, v |-> value]
          view       \* the expected result of ReadFile
Counters(rs) == {[id |-> x.r.id, v |-> x.v] : x \in {y \in rs : y.r.kind = "plain"}}
Stacks(rs) == {[id |-> x.r.id, lines |-> Decode(x.r.lines), v |-> x.v] : x \in {y \in rs : y.r.kind = "stack"}}
View(rs) == [counters |-> Counters(rs), stacks |-> Stacks(rs)]

Init == recs = {} /\ view = View({})
Add == /\ Cardinality(recs) < MaxRecs
       /\ \E r \in Pool, v \in Values :
            /\ r \notin {x.r : x \in recs}
            /\ recs' = recs \cup {[r |-> r, v |-> v]}
            /\ view' = View(recs')
Next == Add
Spec == Init /\ [][Next]_<<recs, view>>

(* sanity of the relation itself *)
Disjoint == \A c \in view.counters, s \in view.stacks : TRUE
Complete == Cardinality(view.counters) + Cardinality(view.stacks) = Cardinality(recs)
NoDittoLeft == \A s \in view.stacks : \A i \in 1..Len(s.lines) : s.lines[i][1] # 0
ValuesExact == \A x \in recs : IF x.r.kind = "plain" THEN [id |-> x.r.id, v |-> x.v] \in view.counters
                                ELSE \E s \in view.stacks : s.id = x.r.id /\ s.v = x.v /\ Len(s.lines) = Len(x.r.lines)
=============================================================================
