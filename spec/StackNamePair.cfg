\* reference configuration for: tlc -config StackNamePair.cfg StackNameMC.tla (checks/c15.py generates the same text)
INIT InitPair
NEXT Next
INVARIANTS InjectiveRender InjectiveStacks
CHECK_DEADLOCK FALSE
CONSTANTS
 MaxLen = 14
 StrLen = 6
 SeqLen = 3
 PairLen = 2
 Generic = FALSE
 Deeps = {5}
