---------------------------- MODULE SidecarTable ----------------------------
(* model -> code for the decision table of C16: every state is one row of   *)
(* the table together with the outcome SidecarDecision.Launch demands; the  *)
(* harness concretizes each row (environment, mode file, token file with    *)
(* its age, local directory), runs a real program that calls                *)
(* telemetry.Start, and compares the process-start log and the directory    *)
(* snapshot with the row.                                                    *)
EXTENDS SidecarDecision
VARIABLES row, out, pred

Init == /\ row \in Rows
        /\ out = Launch(row)
        /\ pred = Predicted(row)
Next == UNCHANGED <<row, out, pred>>

(* the clauses of the property hold on the table, row by row *)
RowOK == \A c \in Clauses : Holds(c, row, pred)
(* structural facts a reader of the documentation expects *)
ChildNeedsApplication == out.child => row.marker = "unset"
UploadImpliesChild == out.upload => out.child /\ out.acquired
OffWritesNothing == row.mode = "off" => out.wrote = {} /\ ~out.child
MarkedWritesNoToken == row.marker # "unset" => "token" \notin out.wrote
CrashAloneSuffices == (Eligible(row) /\ row.crash) => out.child
ASSUME TableSatisfiesProperty
ASSUME TableNotVacuous
=============================================================================
