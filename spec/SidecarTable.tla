---------------------------- MODULE SidecarTable ----------------------------
(* model -> code for the decision table of C16: every state is one row of   *)
(* the table, the circumstances of the run (how many starts in sequence,    *)
(* debug directory, upload flag already in the environment, application     *)
(* crash) and the outcome SidecarDecision demands; the harness concretizes  *)
(* each row (environment, mode file, token file with its age, local         *)
(* directory; shapes from SidecarConcrete.tla), runs a real program that    *)
(* calls telemetry.Start, and compares the process-start log and the        *)
(* directory snapshot with the row.                                          *)
EXTENDS SidecarDecision
CONSTANT AllExtras      \* TRUE: every combination of circumstances; FALSE: one non-default circumstance at a time
VARIABLES row, ext, out, pred

Init == /\ row \in Rows
        /\ ext \in {e \in Extras : Applicable(row, e) /\ (AllExtras \/ OneFactor(e))}
        /\ out = Launch(row)
        /\ pred = Predicted(row, ext)
Next == UNCHANGED <<row, ext, out, pred>>

(* the clauses of the property hold on the table, row by row *)
RowOK == \A c \in Clauses : Holds(c, row, ext, pred)
(* structural facts a reader of the documentation expects *)
ChildNeedsApplication == out.child => row.marker = "unset"
UploadImpliesChild == out.upload => out.child /\ out.acquired
OffWritesNothing == row.mode = "off" => pred.wrote = {} /\ pred.launched = 0
MarkedWritesNoToken == row.marker # "unset" => "token" \notin pred.wrote
CrashAloneSuffices == (Eligible(row) /\ row.crash) => out.child /\ pred.sidecars = (IF ext.startFail = "none" THEN ext.calls ELSE 0)
FailedStartLaunchesNobody == ext.startFail # "none" => pred.sidecars = 0 /\ ~pred.freshRemoved
OneTokenPerSequence == (~ext.leak) => pred.uploaders <= 1
ASSUME TableSatisfiesProperty
ASSUME TableNotVacuous
=============================================================================
