--------------------------- MODULE StorageTrace ---------------------------
(* code -> model for C18: operation histories recorded from real FSBuckets   *)
(* (one JSON object per line: reset / write / read / list with the observed  *)
(* result, and for writes the complete file tree below the storage root).    *)
(* TLC replays the writes into the map of Storage.tla and decides whether    *)
(* every observed result is the one Storage.tla demands.                     *)
EXTENDS Storage, Json
Trace == ndJsonDeserialize("c18obs.ndjson")
VARIABLE l
tvars == <<objs, res, last, hist, via, l>>

ToSet(s) == {s[i] : i \in DOMAIN s}

TInit == /\ l = 1
         /\ objs = <<>>
         /\ res = Res("init", TRUE, "", {}) /\ last = Op("init", "", <<>>, "", <<>>, "") /\ hist = <<>> /\ via = 1

TNext == /\ l <= Len(Trace)
         /\ l' = l + 1
         /\ LET r == Trace[l] IN
              objs' = CASE r.op = "reset" -> [b \in ToSet(r.buckets) |-> <<>>]
                        [] r.op = "write" -> WriteEffect(objs, r.b, r.name, r.data)
                        [] r.op = "copy" -> CopyEffect(objs, r.b, r.name, r.sb, r.sname)
                        [] OTHER -> objs
         /\ UNCHANGED <<res, last, hist, via>>

DiskOf(o) == UNION {{[b |-> b, name |-> n, data |-> o[b][n]] : n \in DOMAIN o[b]} : b \in DOMAIN o}

ExplainedRec(r) ==
    CASE r.op = "reset" -> TRUE
      [] r.op = "write" ->
            /\ r.ok
            /\ LET o2 == WriteEffect(objs, r.b, r.name, r.data) IN
                 /\ ToSet(r.disk) = DiskOf(o2)
                 /\ Len(r.disk) = Cardinality(DiskOf(o2))
                 /\ \A b \in DOMAIN o2 : \A n \in DOMAIN o2[b] : Inside(n)
      [] r.op = "copy" ->
            /\ r.ok = CopyOK(objs, r.sb, r.sname)
            /\ LET o2 == CopyEffect(objs, r.b, r.name, r.sb, r.sname) IN
                 /\ ToSet(r.disk) = DiskOf(o2)
                 /\ Len(r.disk) = Cardinality(DiskOf(o2))
      [] r.op = "read" ->
            /\ r.ok
            /\ LET want == ReadResult(objs, r.b, r.name) IN
                 IF want.ok THEN r.exists /\ r.data = want.data ELSE ~r.exists
      [] r.op = "list" ->
            /\ r.ok
            /\ ToSet(r.names) = ListResult(objs, r.b, r.prefix)
            /\ Len(r.names) = Cardinality(ListResult(objs, r.b, r.prefix))
      [] OTHER -> FALSE

Explained == l <= Len(Trace) => ExplainedRec(Trace[l])

(* the recorder only produces operations inside the property's domain *)
WellFormed == l <= Len(Trace) =>
    LET r == Trace[l] IN
      /\ (r.op \in {"write", "read"}) => (Ordinary(r.name) /\ Usable(r.b, r.name) /\ r.b \in DOMAIN objs)
      /\ r.op = "write" => (r.style \in WriteStyles /\ (r.style = "nowrite" => r.empty))
      /\ r.op = "copy" => /\ Ordinary(r.name) /\ Ordinary(r.sname)
                          /\ r.b \in DOMAIN objs /\ r.sb \in DOMAIN objs
                          /\ Usable(r.b, r.name) /\ Usable(r.sb, r.sname)
                          /\ <<r.b, r.name>> # <<r.sb, r.sname>>

Accepted == TLCGet("stats").diameter = Len(Trace) + 1
=============================================================================
