SPECIFICATION Spec
INVARIANTS StoredAreValid Never5xx
PROPERTIES StoreIff RoundTrip RejectChangesNothing OnlyOneObject
CHECK_DEADLOCK FALSE
CONSTANTS
 CfgGOOS <- MCGOOS
 CfgGOARCH <- MCGOARCH
 CfgGoVersion <- MCGoVersion
 CfgPrograms <- MCPrograms
 Limit <- MCLimit
 InitBuckets <- MCInit
 Requests <- MCRequests
 MaxReq = 3
