\* reference configuration for: tlc -config StackNameSingle.cfg StackNameMC.tla (checks/c15.py generates the same text)
INIT InitSingle
NEXT Next
INVARIANTS SingleDiffers DepthDecides
CHECK_DEADLOCK FALSE
CONSTANTS
 MaxLen = 4096
 StrLen = 6
 SeqLen = 3
 PairLen = 2
 Generic = FALSE
 Deeps = {5, 33, 40, 64}
