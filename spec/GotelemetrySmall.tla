-------------------------- MODULE GotelemetrySmall --------------------------
(* A small fixed instance of Gotelemetry.tla that can be checked by hand:    *)
(*   tlc -config GotelemetrySmall.cfg GotelemetrySmall.tla                   *)
EXTENDS Gotelemetry
En(loc, name, c) == [loc |-> loc, name |-> name, kind |-> "file", c |-> c]
Pool == {En("local", "gopls-2024-01-01.v1.count", 1), En("local", "local.2024-01-08.json", 2), En("local", "2024-01-08.json", 3),
         En("upload", "2024-01-01.json", 4), En("local", "prog.v2.count", 5), En("local", "2024-01-08.json.lock", 6),
         En("local", "weekends", 7), En("root", "stray.json", 8), En("upload", "README", 9)}
(* a non-empty directory named like a report, sorting before the data files of local/ *)
Blocker == {[loc |-> "local", name |-> "2020-01-01.json", kind |-> "dir", c |-> 0], En("local/2020-01-01.json", "keep.json", 10)}
MCTrees == (SUBSET Pool) \cup {t \cup Blocker : t \in SUBSET Pool}
MCModeFiles == {Absent, Unreadable, Text("on", NoDate, FALSE), Text("on", 19999, TRUE), Text("off", 20000, FALSE),
                Text("local", BadDate, FALSE), Text("ON", NoDate, FALSE)}
=============================================================================
