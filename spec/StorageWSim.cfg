SPECIFICATION WSpec
CHECK_DEADLOCK FALSE
CONSTANTS
 Buckets = {"u", "u2"}
 Names <- SmallNames
 Datas = {"d0", "d1", "d2", "d3"}
 Prefixes <- SmallPrefixes
 MaxOps = 0
 Styles = {"write"}
 EmptyData = "d0"
 CopyOn = FALSE
 CopyMiss = {}
 Handles = {1, 2}
 Writers = {"w1", "w2", "w3"}
