INIT Init
NEXT Next
INVARIANTS AllInDomain AllExplained
POSTCONDITION Accepted
CHECK_DEADLOCK FALSE
CONSTANT D = 1024
