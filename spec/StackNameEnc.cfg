\* reference configuration for: tlc -config StackNameEnc.cfg StackNameMC.tla (checks/c15.py generates the same text)
INIT InitEnc
NEXT Next
INVARIANTS RoundTrip Bounded Shortest
CHECK_DEADLOCK FALSE
CONSTANTS
 MaxLen = 14
 StrLen = 6
 SeqLen = 3
 PairLen = 2
 Generic = FALSE
 Deeps = {5}
