---- MODULE ServerReq1 ----
(* request set of one C12 run (see ServerMC.tla) *)
EXTENDS ServerMC
MCRequests == ReqsK(1)
====
