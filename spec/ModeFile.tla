------------------------------ MODULE ModeFile ------------------------------
(* The consent mode file "<mode> <YYYY-MM-DD>" (properties C02 and C19).     *)
(* Its content is abstracted to a class; the operators say what the          *)
(* documentation and the property text make of each class.  Days are day     *)
(* numbers (day 0 = 1970-01-01).                                             *)
(*                                                                           *)
(*   k   "absent"      there is no mode file                                 *)
(*       "unreadable"  the path exists but cannot be read as a file          *)
(*       "text"        the file holds text; after removing surrounding white *)
(*                     space it is a word w, optionally followed by one      *)
(*                     blank and something else                              *)
(*   w   the word (any string; the three modes are "on", "off", "local")     *)
(*   d   NoDate   nothing follows the word                                   *)
(*       BadDate  something follows that is not a calendar date              *)
(*       n >= 0   the date with day number n follows                         *)
(*   pad whether the text is surrounded by white space (which is not part of *)
(*       the value)                                                          *)
EXTENDS Integers

NoDate == -1
BadDate == -2
ValidModes == {"on", "off", "local"}

Absent == [k |-> "absent", w |-> "", d |-> NoDate, pad |-> FALSE]
Unreadable == [k |-> "unreadable", w |-> "", d |-> NoDate, pad |-> FALSE]
Text(w, d, pad) == [k |-> "text", w |-> w, d |-> d, pad |-> pad]

(* "the mode recorded in the mode file is exactly on"                        *)
ExactlyOn(mf) == mf.k = "text" /\ mf.w = "on"
ExactlyOff(mf) == mf.k = "text" /\ mf.w = "off"

(* "any other value or an unreadable mode file behaves as local"             *)
EffMode(mf) == IF ExactlyOn(mf) THEN "on" ELSE IF ExactlyOff(mf) THEN "off" ELSE "local"

(* the opt-in date, "when an opt-in date is recorded"                        *)
OptIn(mf) == IF mf.k = "text" /\ mf.d >= 0 THEN mf.d ELSE NoDate

(* What a reader (library Mode(), `gotelemetry env`) reports: the word and   *)
(* the date; the documented default when the file cannot be read is "local"  *)
(* with no date.                                                             *)
ReadBack(mf) == IF mf.k = "text" THEN <<mf.w, OptIn(mf)>> ELSE <<"local", NoDate>>

(* What setting mode m on day d records.                                     *)
Written(m, d) == Text(m, d, FALSE)

(* ---- arguments given to SetMode ---------------------------------------------- *)
(* An argument is a word m with white space around it: p names the padding      *)
(* ("" none, "lead" a leading blank, "trail" a trailing blank, "tab" a trailing *)
(* tab, "nl" a trailing newline, "crlf" a trailing CR LF, "both" blank + word + *)
(* newline).  A padded valid mode may be rejected or taken as the mode without  *)
(* the padding; nothing else.                                                   *)
Pads == {"", "lead", "trail", "tab", "nl", "crlf", "both"}
(* what the user meant by the last accepted SetMode: the mode file that call    *)
(* had to leave behind; NoIntent when the file was last written by hand or not  *)
(* at all                                                                       *)
NoIntent == [k |-> "none", w |-> "", d |-> NoDate, pad |-> FALSE]

IsModeFile(mf) == /\ mf.k \in {"absent", "unreadable", "text"}
                  /\ mf.d \in Int /\ mf.d >= BadDate
                  /\ mf.pad \in BOOLEAN
                  /\ (mf.k # "text" => mf = Absent \/ mf = Unreadable)
                  /\ (mf.w = "" => mf.d = NoDate)
=============================================================================
