SPECIFICATION Spec
CONSTANTS
 MaxRecs = 3
 Values = {0, 1, 7}
INVARIANTS Complete NoDittoLeft ValuesExact
CHECK_DEADLOCK FALSE
