----------------------------- MODULE CounterObs -----------------------------
(* The clauses of property C03 evaluated by TLC on every state OBSERVED in   *)
(* an execution of the real code (one JSON line per scheduling step; the     *)
(* state word is given in Counter.tla's layout: readers | havePtr | extra).  *)
(* No action of Counter.tla constrains these states: whatever the code did   *)
(* is judged by the property alone.                                          *)
EXTENDS Integers, Sequences, FiniteSets, Json, TLC

Trace == ndJsonDeserialize("c03obs.ndjson")
VARIABLE l
Init == l = 1
Next == l < Len(Trace) /\ l' = l + 1
Spec == Init /\ [][Next]_l

RM == 8
R(w) == w % RM
HP(w) == (w \div RM) % 2
EX(w) == w \div (2 * RM)
ToSet(s) == {s[i] : i \in DOMAIN s}

Persisted(x, c) == x.cell1[c] + x.cell2[c] + x.cell3[c]

(* at every instant persisted + pending never exceeds the increments begun *)
UpperBoundAt(x) == \A c \in DOMAIN x.st : Persisted(x, c) + EX(x.st[c]) <= x.begun[c]
(* once all calls have returned: equality (runs that reach the saturation limit excepted), and no hold left behind *)
QuiescentAt(x) == (x.final /\ ~x.sat) => \A c \in DOMAIN x.st : Persisted(x, c) + EX(x.st[c]) = x.begun[c] /\ R(x.st[c]) = 0
(* runs that reach a saturation limit: the value sticks at the limit, it does not wrap around *)
Min(a, b) == IF a < b THEN a ELSE b
SticksAt(x) == (x.final /\ x.sat) => \A c \in DOMAIN x.st : Persisted(x, c) + EX(x.st[c]) >= Min(x.begun[c], x.satlimit)
(* once a file is open and all calls have returned nothing remains unpersisted *)
FlushedAt(x) == (x.final /\ x.fileopen) => \A c \in DOMAIN x.st : EX(x.st[c]) = 0
(* a pointer believed valid points into an open mapping *)
PtrFreshAt(x) == x.final => \A c \in DOMAIN x.st : (HP(x.st[c]) = 1 /\ x.ptr[c] # 0) => x.ptr[c] \in ToSet(x.open)
(* persisted values never decrease within a run *)
MonotoneAt(i) == (i > 1 /\ Trace[i].run = Trace[i - 1].run) =>
                   \A c \in DOMAIN Trace[i].st : Trace[i].cell1[c] >= Trace[i - 1].cell1[c] /\ Trace[i].cell2[c] >= Trace[i - 1].cell2[c] /\ Trace[i].cell3[c] >= Trace[i - 1].cell3[c]

UpperBound == UpperBoundAt(Trace[l])
Quiescent == QuiescentAt(Trace[l])
Flushed == FlushedAt(Trace[l])
PtrFresh == PtrFreshAt(Trace[l])
Monotone == MonotoneAt(l)
Sticks == SticksAt(Trace[l])

(* all failing (line, clause) pairs at once, printed for the driver *)
Bad == {<<i, "UpperBound">> : i \in {j \in 1..Len(Trace) : ~UpperBoundAt(Trace[j])}}
       \cup {<<i, "Quiescent">> : i \in {j \in 1..Len(Trace) : ~QuiescentAt(Trace[j])}}
       \cup {<<i, "Flushed">> : i \in {j \in 1..Len(Trace) : ~FlushedAt(Trace[j])}}
       \cup {<<i, "PtrFresh">> : i \in {j \in 1..Len(Trace) : ~PtrFreshAt(Trace[j])}}
       \cup {<<i, "Monotone">> : i \in {j \in 1..Len(Trace) : ~MonotoneAt(j)}}
       \cup {<<i, "Sticks">> : i \in {j \in 1..Len(Trace) : ~SticksAt(Trace[j])}}
ASSUME PrintT(<<"C03BAD", Bad>>)
=============================================================================
