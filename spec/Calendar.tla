------------------------------ MODULE Calendar ------------------------------
(* Calendar arithmetic of counter files (property C09).                      *)
(* Days are integers, day 0 = 1970-01-01 (a Thursday); instants are seconds. *)
(* Written from the property text and the package documentation, not from    *)
(* the code: a file opened at instant `now` with week-end setting w begins    *)
(* at 00:00 UTC of the current day and ends at 00:00 UTC of the first LATER   *)
(* day whose weekday is w.                                                   *)
EXTENDS Integers

DaySecs == 86400

Wd(d) == (d + 4) % 7                       \* 0 = Sunday ... 6 = Saturday
DayOf(now) == now \div DaySecs             \* now >= 0
Begin(d) == d
Incr(d, w) == ((w - Wd(d) + 6) % 7) + 1    \* in 1..7
End(d, w) == d + Incr(d, w)

(* The week-end setting is the first non-blank byte of the `weekends` file  *)
(* read as a digit; other bytes are reduced modulo 7 after the byte-wide     *)
(* subtraction of '0'; an empty (or all-blank) file is an error and no       *)
(* counter file is opened.                                                   *)
SettingOfByte(b) == ((b - 48 + 256) % 256) % 7

(* The uploader: a file is finished exactly when its recorded end is before  *)
(* the start instant of the run, and it is reported under the week named by  *)
(* its end day.                                                              *)
Finished(endDay, start) == endDay * DaySecs < start
WeekOf(endDay) == endDay

(* sanity theorems, checked by TLC over the explored range (and by Apalache  *)
(* for all naturals, see CalendarApa.tla)                                    *)
SpanOK(d, w) == /\ End(d, w) - Begin(d) \in 1..7
                /\ Wd(End(d, w)) = w
                /\ \A k \in 1..7 : (d + k < End(d, w)) => Wd(d + k) # w
=============================================================================
