SPECIFICATION Spec
INVARIANTS TypeOK OneRequestPerWeek RequestsRecorded
PROPERTIES RequestOnlyWhenOn UploadableOnlyIf SentOnlyIf OffChangesNothing OtherBehavesLocal SetGet NoNewReadyLeftBehind DisabledStaysSilent NoFileBornUnderOff
CHECK_DEADLOCK FALSE
CONSTANTS
  W = 0
  Collectors = {"c1"}
  LongProgs = {"lp"}
  ModeFiles <- MCModeFiles
  InitFiles <- MCInitFiles
  InitReports <- MCInitReports
  Starts <- MCStarts
  ClockPoints <- MCClock
  SetModes = {"on", "off", "auto"}
  SetPads = {"", "nl"}
  SetZones = {""}
  EmptyProgs = {}
  SetDays = {18251}
  Xs = {512, 513}
  Rates = {0, 512}
  MaxRun = 2
  MaxSet = 1
  MaxEdit = 0
  MaxCollect = 1
  MaxAdv = 1
  MaxProc = 2
