--------------------------- MODULE CounterFileObs ---------------------------
(* The clauses of property C04 evaluated by TLC on every OBSERVED state of    *)
(* the real count file (projection by the independent decoder).               *)
EXTENDS Integers, Sequences, FiniteSets, Json, TLC

Trace == ndJsonDeserialize("c04obs.ndjson")
VARIABLE l
Init == l = 1
Next == l < Len(Trace) /\ l' = l + 1
Spec == Init /\ [][Next]_l

DEAD == -1
RECURSIVE Chain(_, _, _)
Chain(x, o, n) == IF o = 0 THEN <<>>
                  ELSE IF n = 0 \/ o < 1 \/ o > Len(x.rec) THEN <<-2>>
                  ELSE <<o>> \o Chain(x, x.rec[o].next, n - 1)
Buckets(x) == DOMAIN x.head
ChainOf(x, b) == Chain(x, x.head[b], Len(x.rec) + 1)
Linked(x) == UNION {{ChainOf(x, b)[i] : i \in 1..Len(ChainOf(x, b))} : b \in Buckets(x)}
BucketOfName == [n1 |-> "b1", n2 |-> "b1", n3 |-> "b2", n4 |-> "b1", n6 |-> "b3", n7 |-> "b3"]
ValueOf(x, n) == LET ss == {s \in Linked(x) : s >= 1 /\ x.rec[s].name = n} IN IF ss = {} THEN 0 ELSE x.rec[CHOOSE s \in ss : TRUE].val

(* the file is a well-formed counter file: the independent decoder accepts it, *)
(* chains are acyclic, linked records are complete and below the limit         *)
WellFormedAt(x) ==
  /\ x.problems = <<>>
  /\ x.limit >= 0
  /\ \A b \in Buckets(x) : LET ch == ChainOf(x, b) IN
       /\ \A i \in 1..Len(ch) : /\ ch[i] >= 1 /\ ch[i] <= x.limit
                                /\ x.rec[ch[i]].len /\ x.rec[ch[i]].name # "none"
                                /\ (x.rec[ch[i]].name \in DOMAIN BucketOfName => BucketOfName[x.rec[ch[i]].name] = b)
       /\ \A i, j \in 1..Len(ch) : i # j => ch[i] # ch[j]
UniqueNamesAt(x) == \A i, j \in Linked(x) : (i # j /\ i >= 1 /\ j >= 1 /\ x.rec[i].name \in DOMAIN BucketOfName) => x.rec[i].name # x.rec[j].name
(* no counter's value exceeds the increments begun on it *)
BoundedAt(x) == \A n \in DOMAIN x.begun : ValueOf(x, n) <= x.begun[n]
(* at quiescence every surviving process's increment is in the file *)
QuiescentAt(x) == x.final => \A n \in DOMAIN x.begun : ValueOf(x, n) >= x.survivors[n] /\ ValueOf(x, n) <= x.begun[n]
MonotoneAt(i) == (i > 1 /\ Trace[i].run = Trace[i - 1].run) =>
                   /\ Trace[i].limit >= Trace[i - 1].limit /\ Trace[i].size >= Trace[i - 1].size
                   /\ \A s \in 1..Len(Trace[i].rec) : Trace[i].rec[s].val >= Trace[i - 1].rec[s].val

WellFormed == WellFormedAt(Trace[l])
UniqueNames == UniqueNamesAt(Trace[l])
Bounded == BoundedAt(Trace[l])
Quiescent == QuiescentAt(Trace[l])
Monotone == MonotoneAt(l)
Bad == {<<i, "WellFormed">> : i \in {j \in 1..Len(Trace) : ~WellFormedAt(Trace[j])}}
       \cup {<<i, "UniqueNames">> : i \in {j \in 1..Len(Trace) : ~UniqueNamesAt(Trace[j])}}
       \cup {<<i, "Bounded">> : i \in {j \in 1..Len(Trace) : ~BoundedAt(Trace[j])}}
       \cup {<<i, "Quiescent">> : i \in {j \in 1..Len(Trace) : ~QuiescentAt(Trace[j])}}
       \cup {<<i, "Monotone">> : i \in {j \in 1..Len(Trace) : ~MonotoneAt(j)}}
ASSUME PrintT(<<"C04BAD", Bad>>)
=============================================================================
