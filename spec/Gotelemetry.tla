---------------------------- MODULE Gotelemetry ----------------------------
(* Property C19: gotelemetry mode commands and clean touch exactly what     *)
(* they promise.  A state machine over the telemetry directory; commands    *)
(* are run one after the other on day Today.  TLC checks the clauses of     *)
(* GotelemetryOps.tla (and a few consequences) on every transition, for     *)
(* every initial directory of the family and every command sequence up to   *)
(* MaxCmds; the behaviours are replayed into the real binary.               *)
EXTENDS GotelemetryOps, TLC
CONSTANTS Trees,        \* family of initial directories (sets of entries)
          ModeFiles,    \* initial mode-file contents
          Today,        \* the day the commands run on
          MaxCmds,
          BadCmds       \* the refused command lines that are part of the behaviours (subset of BadCommands)
VARIABLES tree, modeFile, shown, n, init, last
vars == <<tree, modeFile, shown, n, init, last>>
NotShown == <<"", -9>>

Cur == [tree |-> tree, modeFile |-> modeFile]
Nxt == [tree |-> tree', modeFile |-> modeFile']

Init == /\ tree \in Trees
        /\ modeFile \in ModeFiles
        /\ shown = NotShown
        /\ n = 0
        /\ init = [tree |-> tree, modeFile |-> modeFile]
        /\ last = "init"

(* what the property leaves open is not generated: a mode command on a mode   *)
(* file that cannot be written, and `local` on a file holding a word that is  *)
(* not a mode (it behaves as local already; rewriting it or not are both fine) *)
Allowed(c) == /\ (c \in ValidModes /\ modeFile.k = "unreadable") => ReadBack(modeFile)[1] = c
              /\ (c = "local" /\ modeFile.k = "text") => modeFile.w \in ValidModes

Cmd(c) == /\ n < MaxCmds /\ Allowed(c)
          /\ LET t == CmdStep(Cur, c, Today) IN tree' = t.tree /\ modeFile' = t.modeFile
          /\ shown' = IF c = "env" THEN ReadBack(modeFile) ELSE shown
          /\ n' = n + 1
          /\ last' = c
          /\ UNCHANGED init
Next == \E c \in Commands \cup (BadCmds \cap BadCommands) : Cmd(c)
Spec == Init /\ [][Next]_vars

(* ---- the property on the model's transitions -------------------------------- *)
ModeSame == modeFile' = modeFile
CleanRemovesData == [][K_CleanRemovesData(last', Cur, Nxt)]_vars
CleanNothingElse == [][K_CleanNothingElse(last', Cur, Nxt, ModeSame)]_vars
CleanKeepsNonEmptyDirs == [][K_CleanKeepsNonEmptyDirs(last', Cur, Nxt)]_vars
ModeOnlyMode     == [][K_ModeOnlyMode(last', Cur, Nxt)]_vars
NoOpWhenSame     == [][K_NoOpWhenSame(last', Cur, Nxt, ModeSame)]_vars
Records          == [][K_Records(last', Cur, ReadBack(modeFile'), ReadBack(modeFile'), {Today})]_vars
(* consequences *)
NoCommandCreatesData == [][\A e \in tree' : IsData(e) => e \in tree]_vars
AfterModeCmdItReads  == [][last' \in ValidModes => ReadBack(modeFile')[1] = last']_vars
CleanIdempotent      == [][last' = "clean" => CleanStep(Nxt) = Nxt]_vars
EnvShowsTheFile      == [][last' = "env" => shown' = ReadBack(modeFile) /\ UNCHANGED <<tree, modeFile>>]_vars
RefusedChangesNothing == [][last' \in BadCommands => UNCHANGED <<tree, modeFile>>]_vars
TypeOK == /\ IsModeFile(modeFile)
          /\ \A e \in tree : e.kind \in {"file", "dir"}
(* once cleaned, a directory holds no data until something other than these   *)
(* commands puts it there                                                     *)
CleanedStaysClean == (last = "clean") => ~\E e \in tree : IsData(e)
=============================================================================
