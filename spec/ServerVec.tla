----------------------------- MODULE ServerVec -----------------------------
(* model -> code vectors for C12: every request that deviates from the valid *)
(* primary request in at most K of its nine fields, and every garbage body,  *)
(* each with the decision Server.tla demands.  One state per request         *)
(* (enumerated lazily: the set is never built).                              *)
EXTENDS ServerMC
CONSTANT K
VARIABLES req, dec
vvars == <<req, dec, bucket, b0, last, status, stored, nreq>>

(* three simultaneous deviations only among the six fields the decision     *)
(* depends on (method, week, config, X, programs, size); path, layout and    *)
(* LastWeek take part in the single and double deviations                    *)
VSubsets == {S \in Subsets(K) : Cardinality(S) <= 2 \/ S \subseteq 1..6}
VInit == /\ \/ \E S \in VSubsets :
                 \E m \in D(1, S), w \in D(2, S), c \in D(3, S), x \in D(4, S), p \in D(5, S), l \in D(6, S),
                    pa \in D(7, S), la \in D(8, S), lw \in D(9, S) :
                     req = Mk(<<m, w, c, x, p, l, pa, la, lw>>)
            \/ req \in Garbage
         /\ dec = Decision(req)
         /\ bucket = <<>> /\ b0 = "empty" /\ last = [method |-> "none"] /\ status = "none" /\ stored = FALSE /\ nreq = 0
VNext == UNCHANGED vvars

(* whatever may be stored is named inside the bucket and is a valid report *)
VecSane == /\ dec # "reject" => (InsideBucket(ObjectPath(req)) /\ ValidReport(Content(req)))
           /\ dec = "store" => (req.method = "POST" /\ ~TooLarge(req) /\ Verdicts(req) = {"valid"} /\ req.layout \notin LooseLayouts)
           /\ (req.method # "POST" \/ (TooLarge(req) /\ req.layout # "trailing") \/ req.kind # "report") => dec = "reject"
=============================================================================
