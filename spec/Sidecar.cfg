\* default configuration (three starters racing for the token); checks/c16.py
\* generates one configuration per scenario family and adds one-shot window
\* invariants through a generated MCSidecar module.
SPECIFICATION Spec
CONSTANTS
 Starters = {"s1", "s2", "s3"}
 MarkerSet = {"unset"}
 CrashSet = {TRUE, FALSE}
 UploadSet = {TRUE}
 ModeSet = {"on"}
 TokenSet = {"absent", "fresh", "stale", "ghost"}
 LocalSet = {TRUE}
 LeakSet = {FALSE}
 MaxFaults = 1
INVARIANTS FreshTokenStays TypeOK NoGrandchild NoChildWhenOff ChildOnlyIfNeeded AtMostOneAcquire HolderKeepsToken OnlyApplicationsAcquire
CHECK_DEADLOCK FALSE
