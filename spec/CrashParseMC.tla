---------------------------- MODULE CrashParseMC ----------------------------
(* Exploration of CrashParse: reports grow line by line over an alphabet of  *)
(* line kinds; TLC checks that the one-pass reading and the declarative      *)
(* reading agree on every report, the frame cap, that nothing after the      *)
(* block and nothing but PCs/sigpanic inside it matters (Erase), and dumps   *)
(* every reached report with its expected outcome for replay on the real     *)
(* telemetryCounterName.                                                     *)
(*  - with VIEW View (cfg CrashParseCover): one witness report for every     *)
(*    (parser state, next line kind) transition, up to 17+ program counters; *)
(*  - without a view (cfg CrashParseSeq): every report that extends one of   *)
(*    the Prefixes by at most MaxExtra lines.                                *)
EXTENDS CrashParse
CONSTANTS MaxLen,       \* bound on the length of a report
          Prefixes      \* set of initial reports
VARIABLES names,       \* the report as a sequence of kind names (this is what is dumped)
          ps           \* state of the one-pass reading
vars == <<names, ps>>

F == FALSE
T == TRUE
K == [ SentOk1   |-> L("sent1", F, F, "none"),
       SentOk2   |-> L("sent2", F, F, "none"),
       SentZero  |-> L("sent0", F, F, "none"),
       SentBad   |-> L("sentbad", F, F, "none"),
       HdrRun    |-> L("run", F, F, "none"),
       HdrOther  |-> L("other", F, F, "none"),
       HdrOtherP |-> L("other", T, F, "none"),     \* e.g. "goroutine 3 [GC worker (idle)]:"
       Blank     |-> L("blank", F, F, "none"),
       Created   |-> L("created", F, F, "none"),
       Elided    |-> L("elided", F, F, "none"),
       SymSig    |-> L("text", T, T, "none"),
       SymPlain  |-> L("text", T, F, "none"),
       SymParen1 |-> L("text", T, F, "none"),     \* a symbol line that BEGINS with "(" (empty symbol)
       NoParen   |-> L("text", F, F, "none"),
       LocPc     |-> L("text", F, F, "ok"),
       LocParenPc|-> L("text", T, F, "ok"),
       LocPathPc |-> L("text", F, F, "okpath"),
       LocHuge   |-> L("text", F, F, "huge"),
       LocOddPc  |-> L("text", F, F, "huge"),     \* a pc= number in another notation (decimal, 0X.., 0o.., 0b.., 0x_..)
       LocBad    |-> L("text", F, F, "bad"),
       LocNoPcPath |-> L("text", F, F, "nonepath"), \* inlined call; its file path has a word pc=0xADDR
       LocNoPc   |-> L("text", F, F, "none") ]
\* SymPlain / SymParen1 and NoParen / LocNoPc are the same abstract lines (a text line with neither a
\* paren nor a pc); they are kept apart for concretization only.
KindNames == DOMAIN K \ {"LocNoPc"}

hist == [i \in 1..Len(names) |-> K[names[i]]]
Init == /\ names \in Prefixes
        /\ ps = Run(P0, hist, 1)
Next == /\ Len(names) < MaxLen
        /\ \E n \in KindNames :
              /\ names' = Append(names, n)
              /\ ps' = Step(ps, K[n], Len(names) + 1)
Spec == Init /\ [][Next]_vars

(* checks/c14.py reads `names` and the expected outcome AOut(ps) /           *)
(* AWellFormed(ps) from the dumped state; Agree ties both to the declarative *)
(* reading.                                                                  *)

\* ---- theorems checked on every reached report -------------------------
Agree == LET w == WellFormed(hist)  g == AsText(hist)  wt == WellFormed(g) IN
         /\ AWellFormed(ps, Len(hist)) = w
         /\ AWellFormedT(ps, Len(hist)) = wt
         /\ w => (wt /\ Expected(g) = Expected(hist))
         /\ wt => AOut(ps) = Expected(g)
         /\ ps = Run(P0, hist, 1)
(* "the name is that of the same report without those lines": deleting the   *)
(* later sentinel lines that stand before the running goroutine changes      *)
(* neither well-formedness nor the frames (positions shift, flags do not).   *)
RECURSIVE Pick(_, _, _)
Pick(h, keep, i) == IF i > Len(h) THEN <<>>
                    ELSE (IF i \in keep THEN <<h[i]>> ELSE <<>>) \o Pick(h, keep, i + 1)
Del(h) == LET hd == Hdr(h) IN
          Pick(h, {i \in 1..Len(h) : ~(i > 1 /\ h[i].s \in SentS /\ (hd = 0 \/ i < hd))}, 1)
Traps(x) == [k \in 1..Len(x.frames) |-> x.frames[k].trap]
RepIgnored == LET g == AsText(hist)  d == AsText(Del(hist)) IN
              /\ WellFormed(g) = WellFormed(d)
              /\ WellFormed(g) => /\ Expected(g).kind = Expected(d).kind
                                  /\ Traps(Expected(g)) = Traps(Expected(d))
CapOK == LET x == Expected(hist).frames  hd == Hdr(hist)  e == EndIdx(hist)  lib == Liberal(hist) IN
         /\ Len(x) <= Cap
         /\ \A k \in 1..Len(x) : IsPC(hist[x[k].i]) /\ x[k].i > hd /\ x[k].i < e /\ x[k].i \in lib

(* Erase everything the property says must not matter: lines outside the     *)
(* block keep only their structural role, symbol lines only "is sigpanic",   *)
(* location lines only "has a PC".                                           *)
Erase(h) == LET hd == Hdr(h)  e == EndIdx(h) IN
            [i \in 1..Len(h) |->
              IF hd = 0 \/ i <= hd THEN L(h[i].s, F, F, "none")
              ELSE IF i = e THEN L(h[i].s, F, F, "none")
              ELSE IF i > e THEN L("blank", F, F, "none")
              ELSE IF (i - hd) % 2 = 1 THEN L(h[i].s, h[i].paren, h[i].sig /\ h[i].s = "text", "none")
              ELSE L(h[i].s, F, F, IF h[i].pc = "okpath" THEN "ok" ELSE IF h[i].pc = "nonepath" THEN "none" ELSE h[i].pc)]
EraseOK == LET g == Erase(hist)  w == WellFormed(hist) IN
           /\ WellFormed(g) = w
           /\ w => /\ Expected(g) = Expected(hist)
                   /\ Contribution(g) = Contribution(hist)
(* the outcome is a function of the contribution alone *)
FromContribution(c) == IF c.pcs = <<>> THEN NoGo ELSE Name(Take(c.pcs, Cap))
OnlyContribution == WellFormed(hist) => Expected(hist) = FromContribution(Contribution(hist))

(* once the block has ended nothing changes the outcome *)
PostStable == [][ps.phase = "post" => ps' = ps]_vars
(* the sigpanic rule: a frame is a trap iff the previous physical frame's    *)
(* symbol is sigpanic (stated on the operational reading)                    *)
TrapRule == ps.wf => \A k \in 1..Len(ps.pcs) :
               ps.pcs[k].trap = (k > 1 /\ hist[ps.pcs[k - 1].i - 1].sig)

\* initial reports for the cfg files
PrefixEmpty == {<<>>}
PrefixHdr == {<<"SentOk1", "HdrRun">>}
\* a first running goroutine with odd line pairing (a symbol line without its
\* location line, a location line in symbol position, an extra "(" line), ended
\* by a blank or "created by" line: what follows belongs to other goroutines
PrefixOdd == {p \o <<t>> : p \in {<<"SentOk1", "HdrRun", "SymPlain", "LocPc", "SymPlain">>,
                                  <<"SentOk1", "HdrRun", "SymPlain", "LocPc", "LocParenPc">>,
                                  <<"SentOk1", "HdrRun", "SymPlain", "LocPc", "SymParen1">>},
                         t \in {"Blank", "Created"}}
\* a symbol-position line without "(" whose location line is kept: first frame,
\* a later frame, the frame after sigpanic
PrefixNoSym == {<<"SentOk1", "HdrRun", "NoParen", "LocPc", "SymPlain", "LocPc">>,
                <<"SentOk1", "HdrRun", "SymPlain", "LocPc", "NoParen", "LocPc">>,
                <<"SentOk1", "HdrRun", "SymSig", "LocPc", "NoParen", "LocPc">>}
(* symbol text does not matter: putting the "(" back changes nothing for a   *)
(* report that already is in the genuine format                              *)
SymTextOK == WellFormed(hist) => (AsSym(hist) = hist) /\ WellFormed(AsSym(AsText(hist)))
PrefixTrap == {<<"SentOk2", "NoParen", "HdrRun", "SymSig", "LocPc">>}

NpcClass(n) == IF n <= Cap + 1 THEN n ELSE Cap + 2
LastKind == IF names = <<>> THEN "-" ELSE names[Len(names)]
ViewFull == <<ps.phase, ps.wf, ps.once, ps.sent, ps.sympos, ps.curSig, ps.lastSig,
              NpcClass(Len(ps.pcs)), LastKind, Len(names) = 1>>
\* a report that has left the genuine format never comes back: its future
\* depends on the phase and the line position only
View == IF ps.wf THEN ViewFull ELSE <<ps.phase, ps.sympos, LastKind, Len(names) = 1>>
=============================================================================
