--------------------------- MODULE CtrApiLifeTrace ---------------------------
(* code -> model (X03): histories of public-API calls chosen by a random       *)
(* driver, each executed by the real code in a fresh process.  One JSON line    *)
(* per call: the call and what the process observed after it (in the           *)
(* vocabulary of CtrApiLife.tla); a line with kind "init" starts a new process  *)
(* in the given mode.  TLC accepts the log iff every call is enabled in the     *)
(* model and the observation is the one the model state demands.               *)
EXTENDS CtrApiLife, Json

Trace == ndJsonDeserialize("x03life.ndjson")
VARIABLE l
ToSet(s) == {s[i] : i \in DOMAIN s}
OpOf(x) == [op |-> x.op, n |-> x.n, d |-> x.d, fl |-> ToSet(x.fl), kind |-> x.okind]

Explains(o, g) ==     \* model observation o explains the real observation g
  /\ o.pan = g.pan /\ o.dead = g.dead
  /\ (~o.dead /\ g.reads) =>                      \* (a program that is not a test binary cannot link countertest: no reads)
                /\ o.ga = g.ga /\ o.gb = g.gb /\ o.s1 = g.s1 /\ o.s2 = g.s2
                /\ (o.gaerr = "none" => g.gaerr = "") /\ (o.gberr = "none" => g.gberr = "")
                /\ g.rserr = "" /\ g.rsalien = 0
  /\ o.file = (g.nfiles = 1) /\ g.nfiles <= 1
  /\ \A n \in NM : o.d[n] = g.d[n]
  /\ o.recs = ToSet(g.recs)
  /\ g.alien = 0 /\ ~g.malformed /\ g.rfok
  /\ ~o.file => ToSet(g.dirfiles) \subseteq {"mode"}        \* nothing is written before / without a successful Open

TInit == Init /\ l = 1
Start == /\ l <= Len(Trace) /\ Trace[l].kind = "init"
         /\ mode' = Trace[l].mode
         /\ opened' = "no" /\ okind' = "none" /\ ofam' = "none" /\ topen' = FALSE /\ hasClose' = FALSE /\ dead' = FALSE
         /\ gmem' = Zero /\ amem' = Zero /\ smem' = Zero /\ sstacks' = <<>> /\ disk' = Zero /\ cmdset' = {}
         /\ incs' = Zero /\ hist' = <<>>
         /\ obs' = ObsOf(FALSE, "no", FALSE, Zero, Zero, <<>>, Zero)
         /\ l' = l + 1
Consume == /\ l <= Len(Trace) /\ Trace[l].kind = "call"
           /\ Call(OpOf(Trace[l]))
           /\ Explains(obs', Trace[l].obs)
           /\ l' = l + 1
Finished == l = Len(Trace) + 1 /\ UNCHANGED <<vars, l>>
TNext == Start \/ Consume \/ Finished
TSpec == TInit /\ [][TNext]_<<vars, l>>
=============================================================================
