--------------------------- MODULE WebContentTrace ---------------------------
(* X01, code -> model: answers of the real content server to canonical and  *)
(* hostile request paths over random file trees, one JSON object per line   *)
(* (abstracted by the harness from its own map of the tree).  TLC decides   *)
(* each record with Outcome / Agrees / SafeObs of WebContent.tla; bad holds *)
(* the numbers of the records the specification does not explain.           *)
EXTENDS WebContent, Json
Trace == ndJsonDeserialize("x01content.ndjson")
VARIABLE bad
Ok(r) == IF r.cls = "canonical"
         THEN /\ SafeObs(r.safe)
              /\ (Outcome(r.abs).k # "any" => ~r.rawsrc)          \* page source is never served
              /\ \/ Agrees(Outcome(r.abs), r.obs)
                 \/ r.safe.broken /\ r.safe.status >= 500     \* a page that cannot be rendered
         ELSE SafeObs(r.safe)
Init == bad = {i \in 1..Len(Trace) : ~Ok(Trace[i])}
Next == UNCHANGED bad
AllExplained == bad = {}
=============================================================================
