----------------------------- MODULE ModeBytes -----------------------------
(* Property C05: the mode file as one of the files of the telemetry directory *)
(* that may be "truncated or overwritten with arbitrary bytes".               *)
(*                                                                            *)
(* Contents: every prefix (cut after 0 .. all bytes) of the three texts        *)
(* SetMode writes, "on 2023-09-26", "off 2023-09-26", "local 2023-09-26", and  *)
(* garbage classes (white space only, a date with trailing junk, two blanks,   *)
(* very long texts, invalid UTF-8, embedded newline / NUL, padding).  Each is  *)
(* abstracted to the mode-file value of ModeFile.tla (word, date, padding);    *)
(* the entry points the property names - opening counters and incrementing,    *)
(* running the uploader - must RETURN for every content (no panic escapes,     *)
(* bounded steps), must not touch other counters / delete count files without  *)
(* a report, and behave as the mode the documentation reads out of the bytes:  *)
(* exactly "off" disables counting, exactly "on" lets the uploader upload,      *)
(* anything else - in particular a file cut inside its word - is "local";       *)
(* a file cut inside its DATE keeps its mode (the date is merely unknown).      *)
(* Written from the Dir.Mode / SetModeAsOf documentation and ModeFile.tla.      *)
EXTENDS ModeFile, Sequences, FiniteSets, TLC

TheDay  == 19626                         \* 2023-09-26
Bases   == {"on", "off", "local"}
WordLen(b) == CASE b = "on" -> 2 [] b = "off" -> 3 [] b = "local" -> 5
DateLen == 10
FullLen(b) == WordLen(b) + 1 + DateLen
Garbage == {"spaces", "padded", "crlf", "junkdate", "twoblank", "offjunk", "longdate", "longword", "utf8", "newline", "nul", "nuldate", "dateonly", "isdir"}
(* the week-end file local/weekends: one digit, the day of the week on which counter files expire *)
WGarbage == {"w:valid", "w:nl", "w:empty", "w:spaces", "w:isdir", "w:seven", "w:nine", "w:letter", "w:minus", "w:utf8", "w:long"}

Prefix(b, c) == [file |-> "mode", kind |-> "prefix", base |-> b, cut |-> c, g |-> "-"]
Junk(x)      == [file |-> "mode", kind |-> "garbage", base |-> "-", cut |-> 0, g |-> x]
WJunk(x)     == [file |-> "weekends", kind |-> "garbage", base |-> "-", cut |-> 0, g |-> x]
AllContents == {p \in {Prefix(b, c) : b \in Bases, c \in 0..18} : p.cut <= FullLen(p.base)} \cup {Junk(x) : x \in Garbage} \cup {WJunk(x) : x \in WGarbage}

(* a word that is none of the three modes *)
Other == "?"
(* the mode-file value the bytes stand for *)
Abstract(c) ==
    IF c.kind = "prefix" THEN
        LET wl == WordLen(c.base) IN
        IF c.cut = 0 THEN Text("", NoDate, FALSE)                       \* an empty file
        ELSE IF c.cut < wl THEN Text(Other, NoDate, FALSE)                \* cut inside the word: no proper prefix of a mode is a mode
        ELSE IF c.cut = wl THEN Text(c.base, NoDate, FALSE)
        ELSE IF c.cut = wl + 1 THEN Text(c.base, NoDate, TRUE)            \* the trailing blank is white space
        ELSE IF c.cut < FullLen(c.base) THEN Text(c.base, BadDate, FALSE)  \* cut inside the date
        ELSE Text(c.base, TheDay, FALSE)
    ELSE CASE c.g = "spaces"   -> Text("", NoDate, TRUE)
           [] c.g = "padded"   -> Text("on", TheDay, TRUE)
           [] c.g = "crlf"     -> Text("off", TheDay, TRUE)
           [] c.g = "junkdate" -> Text("on", BadDate, FALSE)
           [] c.g = "twoblank" -> Text("on", BadDate, FALSE)
           [] c.g = "offjunk"  -> Text("off", BadDate, FALSE)
           [] c.g = "longdate" -> Text("on", BadDate, FALSE)
           [] c.g = "nuldate"  -> Text("on", BadDate, FALSE)
           [] c.g = "utf8"     -> Text(Other, TheDay, FALSE)
           [] c.g = "nul"      -> Text(Other, TheDay, FALSE)
           [] c.g = "isdir"    -> Unreadable                                \* the path is a directory
           [] OTHER            -> Text(Other, NoDate, FALSE)                \* longword, newline, dateonly

EntryPoints == {"counter", "upload"}
(* counter: open + Add + Add + Read on an existing count file; upload: upload.Run  *)
(* over expired count files whose data is younger than the opt-in date             *)
(* the week-end file: "reads the weekends file, creating one if none exists"; an empty one or one  *)
(* that can neither be read nor created is an error (the file is parked); a digit names the day;   *)
(* about other bytes the documentation only says the value is made legal                            *)
WeekendsOpen(c) == CASE c.g \in {"w:valid", "w:nl"} -> "opens"
                     [] c.g \in {"w:empty", "w:spaces", "w:isdir"} -> "parks"
                     [] OTHER -> "any"
Expected(c, ep) ==
    LET m == EffMode(Abstract(c)) IN
    IF c.file = "weekends" THEN [open |-> WeekendsOpen(c), uploads |-> FALSE]
    ELSE IF ep = "counter" THEN [open |-> IF m = "off" THEN "parks" ELSE "opens", uploads |-> FALSE]
    ELSE [open |-> "-", uploads |-> m = "on"]

(* observed outcome o = [ret, open, persisted (BOOLEAN), others (BOOLEAN), uploads (BOOLEAN)] *)
Safety(o) == IF o.ret # "ok" THEN o.ret ELSE IF o.others THEN "other-data-changed" ELSE "ok"
ClassCheck(c, ep, o) ==
    LET e == Expected(c, ep) IN
    IF o.ret # "ok" THEN "ok"
    ELSE IF ep = "counter" /\ o.open \notin {"opens", "parks"} THEN "mode-open-class"
    ELSE IF ep = "counter" /\ e.open # "any" /\ o.open # e.open THEN "mode-open-class"
    ELSE IF ep = "counter" /\ o.persisted # (o.open = "opens") THEN "mode-persist-class"
    ELSE IF ep = "upload" /\ o.uploads # e.uploads THEN "mode-upload-class"
    ELSE "ok"
Verdict(c, ep, o) == IF Safety(o) # "ok" THEN Safety(o) ELSE ClassCheck(c, ep, o)

VARIABLES content, ep, exp
vars == <<content, ep, exp>>
Init == /\ content \in AllContents
        /\ ep \in (IF content.file = "weekends" THEN {"counter"} ELSE EntryPoints)    \* the uploader does not read the week-end file
        /\ exp = Expected(content, ep)
Next == UNCHANGED vars
Spec == Init /\ [][Next]_vars

(* ---- sanity theorems ------------------------------------------------------------ *)
WellTyped == content.file = "mode" => IsModeFile(Abstract(content))
(* a file cut anywhere inside its date (or right after the word) keeps the mode of the whole file *)
CutInDateKeepsMode ==
    (content.file = "mode" /\ content.kind = "prefix" /\ content.cut >= WordLen(content.base)) =>
        EffMode(Abstract(content)) = EffMode(Abstract(Prefix(content.base, FullLen(content.base))))
(* a file cut inside its word is never "on" and never "off" *)
CutInWordIsLocal == (content.kind = "prefix" /\ content.cut < WordLen(content.base)) => EffMode(Abstract(content)) = "local"
(* the uploader uploads only for contents whose word is exactly on; counting stops only for exactly off *)
OnlyOnUploads == (ep = "upload" /\ exp.uploads) => ExactlyOn(Abstract(content))
OnlyOffParks  == (content.file = "mode" /\ ep = "counter" /\ exp.open = "parks") => ExactlyOff(Abstract(content))
(* the opt-in date is known only for whole dates *)
DateOnlyWhenWhole == (content.file = "mode" /\ OptIn(Abstract(content)) # NoDate) =>
                        (content.kind = "garbage" \/ content.cut = FullLen(content.base))
Sane == WellTyped /\ CutInDateKeepsMode /\ CutInWordIsLocal /\ OnlyOnUploads /\ OnlyOffParks /\ DateOnlyWhenWhole
=============================================================================
