---- MODULE ServerReqSim ----
(* request set of the C12 history walks: outcomes the property fixes *)
EXTENDS ServerMC
MCRequests == Decided(ReqsK(1))
====
