SPECIFICATION Spec
CHECK_DEADLOCK FALSE
CONSTANTS
 CfgGOOS <- MCGOOS
 CfgGOARCH <- MCGOARCH
 CfgGoVersion <- MCGoVersion
 CfgPrograms <- MCPrograms
 Limit <- MCLimit
 InitBuckets <- MCInit
 Requests <- MCRequests
 MaxReq = 1000000
