INIT Init
NEXT Next
INVARIANT ErrSane
CHECK_DEADLOCK FALSE
CONSTANT Codes <- MCCodes
