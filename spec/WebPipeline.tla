----------------------------- MODULE WebPipeline -----------------------------
(***************************************************************************)
(* X01 (extension engine) -- godev/internal/middleware and the way         *)
(* telemetrygodev composes it (Chain(Log, Timeout, RequestSize, Recover)). *)
(*                                                                         *)
(* From the package documentation:                                         *)
(*   Chain    "applies a sequence of Middlewares, so that they execute in  *)
(*             the given order": Chain(m1, m2)(h) = m1(m2(h)).             *)
(*   Log      "logs request start, end, duration, and status".             *)
(*   Recover  "recovers from panics in the delegate handler".              *)
(*   RequestSize "limits the size of incoming request bodies".             *)
(*   Timeout  "times out each request after the given duration".           *)
(*                                                                         *)
(* G4 What an operator of the server relies on, for EVERY behaviour of the *)
(*    wrapped handler (returns, with or without writing / panics before or *)
(*    after writing / never                                                *)
(*    returns in time / panics late; reads the body or not; body within or *)
(*    over the limit) and every history of requests on one server value:   *)
(*    a. NoPanicEscapes: no panic of a handler reaches the caller of the   *)
(*       chain; a handler that panics before writing is answered 500.      *)
(*    b. LogFaithful: every request produces exactly one "start" and one   *)
(*       "end" record, and the end record carries the status the client    *)
(*       received (also for the 500 of a recovered panic and the 503 of a  *)
(*       timeout), at error level for 5xx, warning for 4xx.                *)
(*    c. BodyBounded: the handler is handed at most Limit bytes of body;   *)
(*       it reaches the end of the body exactly when the body fits, else   *)
(*       its read fails -- a truncated body is never mistaken for a whole  *)
(*       one.                                                              *)
(*    d. TimeoutResponse: a handler that does not finish in time is        *)
(*       answered 503 "request timed out"; what it writes later is         *)
(*       discarded; a late panic is harmless.                              *)
(*    e. Stateless: the answer to a request does not depend on the         *)
(*       requests served before it (after a panic or a timeout the server  *)
(*       keeps serving).                                                   *)
(* These hold for the documented order and the module shows which of them  *)
(* an other order loses (OrderMatters): the semantics of each middleware   *)
(* is a transformer of the delegate's outcome, Chain is their composition. *)
(***************************************************************************)
EXTENDS Integers, Sequences, FiniteSets, TLC

MWs == {"Log", "Timeout", "Size", "Recover"}
Documented == <<"Log", "Timeout", "Size", "Recover">>

(* handler behaviour *)
Acts == {"ok", "silent", "panic", "writepanic", "stall", "stallpanic"}   \* silent: returns without writing anything
Statuses == {200, 400, 500}
Behaviours == [act : Acts, st : Statuses, reads : BOOLEAN]
Bodies == {"fits", "over"}

(* sequences without repetition over a set *)
RECURSIVE Perms(_)
Perms(S) == IF S = {} THEN {<<>>} ELSE UNION {{<<x>> \o p : p \in Perms(S \ {x})} : x \in S}
Orders == UNION {Perms(S) : S \in SUBSET MWs}

Level(st) == IF st >= 500 THEN "error" ELSE IF st >= 400 THEN "warn" ELSE "info"
StartRec == [msg |-> "start", status |-> 0, level |-> "info"]
EndRec(st) == [msg |-> "end", status |-> st, level |-> Level(st)]

(* outcome of a (wrapped) handler as its caller sees it:                     *)
(*   late   : it has not returned when the deadline of an enclosing Timeout  *)
(*            passes (it returns only after it is released)                  *)
(*   hdr    : status it wrote (0: wrote nothing)                             *)
(*   src    : who produced the body: handler | panic500 | handler+panic500 | *)
(*            timeout | none                                                 *)
(*   panics : it ends by panicking into its caller                           *)
(*   seen   : what the handler's body reads gave: none | all | cut           *)
(*   logs   : records eventually logged, in order                            *)
Base(b, limited, body) ==
    [late |-> b.act \in {"stall", "stallpanic"},
     hdr |-> IF b.act \in {"panic", "stallpanic", "silent"} THEN 0 ELSE b.st,
     src |-> IF b.act \in {"panic", "stallpanic", "silent"} THEN "none" ELSE "handler",
     panics |-> b.act \in {"panic", "writepanic", "stallpanic"},
     seen |-> IF ~b.reads THEN "none" ELSE IF limited /\ body = "over" THEN "cut" ELSE "all",
     logs |-> <<>>]

Sent(o) == IF o.hdr = 0 THEN 200 ELSE o.hdr      \* net/http: no WriteHeader means 200

LogMW(o) == [o EXCEPT !.logs = <<StartRec>> \o o.logs \o (IF o.panics THEN <<>> ELSE <<EndRec(Sent(o))>>)]
RecoverMW(o) == IF ~o.panics THEN o
                ELSE [o EXCEPT !.panics = FALSE,
                               !.hdr = IF o.hdr = 0 THEN 500 ELSE o.hdr,
                               !.src = IF o.hdr = 0 THEN "panic500" ELSE "handler+panic500"]
(* in time: the delegate's answer is passed on when it returns; a panic is    *)
(* passed on too, and what the delegate had written is then dropped           *)
TimeoutMW(o) == IF ~o.late THEN (IF o.panics THEN [o EXCEPT !.hdr = 0, !.src = "none"] ELSE o)
                ELSE [o EXCEPT !.late = FALSE, !.hdr = 503, !.src = "timeout", !.panics = FALSE]

RECURSIVE Eval(_, _, _, _)
Eval(ord, b, limited, body) ==
    IF ord = <<>> THEN Base(b, limited, body)
    ELSE LET m == Head(ord)
             inner == Eval(Tail(ord), b, limited \/ m = "Size", body)
         IN CASE m = "Log" -> LogMW(inner)
              [] m = "Recover" -> RecoverMW(inner)
              [] m = "Timeout" -> TimeoutMW(inner)
              [] m = "Size" -> inner

(* what the client / the caller of the chain observes *)
Client(o) == [status |-> IF o.panics /\ o.hdr = 0 THEN 0 ELSE Sent(o),   \* 0: no response at all
              src |-> o.src, escaped |-> o.panics, late |-> o.late, seen |-> o.seen, logs |-> o.logs]
Expected(ord, b, body) == Client(Eval(ord, b, FALSE, body))

(* ------------------------- the guarantees, per order -------------------- *)
NoPanicEscapes(ord) == \A b \in Behaviours, body \in Bodies :
    LET c == Expected(ord, b, body) IN ~c.escaped /\ (b.act = "panic" => c.status = 500)
LogFaithful(ord) == \A b \in Behaviours, body \in Bodies :
    LET c == Expected(ord, b, body) IN c.logs = <<StartRec, EndRec(c.status)>>
BodyBounded(ord) == \A b \in Behaviours, body \in Bodies :
    LET c == Expected(ord, b, body) IN b.reads => (c.seen = "all" <=> body = "fits") /\ (c.seen = "cut" <=> body = "over")
TimeoutResponse(ord) == \A b \in Behaviours, body \in Bodies :
    LET c == Expected(ord, b, body) IN
       /\ ~c.late
       /\ b.act \in {"stall", "stallpanic"} => (c.status = 503 /\ c.src = "timeout")
AllGuarantees(ord) == NoPanicEscapes(ord) /\ LogFaithful(ord) /\ BodyBounded(ord) /\ TimeoutResponse(ord)

Pos(ord, m) == CHOOSE i \in 1..Len(ord) : ord[i] = m
Full == {o \in Orders : Len(o) = 4}
(* the documented order has all of them; among the orders of all four it is   *)
(* exactly those with Log outside both Timeout and Recover that do, and no    *)
(* chain that leaves one of the four out has them all                         *)
OrderMatters ==
    /\ AllGuarantees(Documented)
    /\ \A o \in Full : AllGuarantees(o) <=> (Pos(o, "Log") < Pos(o, "Timeout") /\ Pos(o, "Log") < Pos(o, "Recover"))
    /\ \A o \in Orders : Len(o) < 4 => ~AllGuarantees(o)

(* outside the documentation: a handler that panics after writing its header, *)
(* under a Log that wraps Recover with no Timeout in between, makes Recover    *)
(* call WriteHeader a second time on Log's recorder (which status "the" one    *)
(* is, is not documented); such vectors are not generated                      *)
Between(ord, a, m, b) == Pos(ord, a) < Pos(ord, m) /\ Pos(ord, m) < Pos(ord, b)
InOrd(ord, m) == \E i \in 1..Len(ord) : ord[i] = m
Specified(ord, b) ==
    ~(/\ b.act = "writepanic" /\ InOrd(ord, "Log") /\ InOrd(ord, "Recover")
      /\ Pos(ord, "Log") < Pos(ord, "Recover")
      /\ ~(InOrd(ord, "Timeout") /\ Between(ord, "Log", "Timeout", "Recover")))

(* ------------------ Chain itself: order of execution -------------------- *)
(* n marker middlewares, each either passing on to its delegate or          *)
(* answering itself; events: i = middleware i entered, -i = left, 0 = the   *)
(* handler ran                                                              *)
RECURSIVE ChainEvents(_, _)
ChainEvents(beh, i) ==
    IF i > Len(beh) THEN <<0>>
    ELSE IF beh[i] = "short" THEN <<i, -i>>
    ELSE <<i>> \o ChainEvents(beh, i + 1) \o <<-i>>
ChainBehs(n) == UNION {[1..k -> {"pass", "short"}] : k \in 0..n}
=============================================================================
