------------------------- MODULE ConfigDistUnionOps -------------------------
(* X02, guarantee G6: the meaning of a union of file-system layers (operators   *)
(* only; see ConfigDistUnion for the documentation they are written from and    *)
(* for the enumeration and the theorems TLC checks).                            *)
EXTENDS Integers, Sequences, FiniteSets
CONSTANT NameOrder    \* all names as a sequence in file-name order
ABCD == <<"a", "b", "c", "d">>       \* the order the configurations use (NameOrder <- ABCD)

Rank(n) == CHOOSE i \in DOMAIN NameOrder : NameOrder[i] = n
None == [k |-> "none", kids |-> {}]
File == [k |-> "file", kids |-> {}]
Dir(S) == [k |-> "dir", kids |-> S]
Kind(l, path) == CASE Len(path) = 0 -> "dir"
                   [] Len(path) = 1 -> IF path[1] \in DOMAIN l THEN l[path[1]].k ELSE "none"
                   [] Len(path) = 2 -> IF path[1] \in DOMAIN l /\ l[path[1]].k = "dir" /\ path[2] \in l[path[1]].kids THEN "file" ELSE "none"
                   [] OTHER -> "none"
Listing(l, path) == CASE Len(path) = 0 -> {n \in DOMAIN l : l[n].k # "none"}
                      [] Len(path) = 1 /\ Kind(l, path) = "dir" -> l[path[1]].kids
                      [] OTHER -> {}

Providers(ls, path) == {i \in DOMAIN ls : Kind(ls[i], path) # "none"}
Min(S) == CHOOSE x \in S : \A y \in S : x <= y
NoRes == [ok |-> FALSE, layer |-> 0, kind |-> "none"]
OpenRes(ls, path) == IF Providers(ls, path) = {} THEN NoRes
                     ELSE LET i == Min(Providers(ls, path)) IN [ok |-> TRUE, layer |-> i, kind |-> Kind(ls[i], path)]
TypeConflict(ls, path) == \E i, j \in Providers(ls, path) : Kind(ls[i], path) # Kind(ls[j], path)

DirLayers(ls, path) == {i \in DOMAIN ls : Kind(ls[i], path) = "dir"}
DirNames(ls, path) == UNION {Listing(ls[i], path) : i \in DirLayers(ls, path)}
EntryOf(ls, path, n) == LET i == Min({j \in DirLayers(ls, path) : n \in Listing(ls[j], path)})
                        IN [name |-> n, layer |-> i, kind |-> Kind(ls[i], path \o <<n>>)]
RECURSIVE SortNames(_)
SortNames(S) == IF S = {} THEN <<>>
                ELSE LET m == CHOOSE x \in S : \A y \in S : Rank(x) <= Rank(y) IN <<m>> \o SortNames(S \ {m})
ReadDirRes(ls, path) ==
    IF DirLayers(ls, path) = {} THEN [ok |-> FALSE, list |-> <<>>]
    ELSE LET ns == SortNames(DirNames(ls, path))
         IN [ok |-> TRUE, list |-> [k \in DOMAIN ns |-> EntryOf(ls, path, ns[k])]]
=============================================================================
