---- MODULE MCWorker ----
(* A small fixed instance of Worker.tla (hand-written pool and configuration); *)
(* checks/c13.py generates MCWorkerGen from its concrete pool instead.         *)
EXTENDS Worker
MCPool == << [id |-> 1, big |-> FALSE, carries |-> {<<"p1","flag","a">>, <<"p1","GoVersion","go1.21.0">>}],
             [id |-> 1, big |-> TRUE, carries |-> {<<"p1","flag","b">>, <<"p2","flag","a">>, <<"p1","GoVersion","go1.21.5">>}],
             [id |-> 2, big |-> FALSE, carries |-> {<<"p1","flag","a">>, <<"p1","flag","zz">>, <<"p1","GoVersion","go1.22.1">>}] >>
MCCharts == { [p |-> "p1", c |-> "flag", bk |-> {<<"a","a",1>>, <<"b","b",2>>}],
              [p |-> "p2", c |-> "flag", bk |-> {<<"a","a",1>>}],
              [p |-> "p1", c |-> "GoVersion", bk |-> {<<"go1.21.0","go1.21",1>>, <<"go1.21.5","go1.21",1>>, <<"go1.22.1","go1.22",2>>}] }
MCObjs == {"o1","o2"}
====
