---------------------------- MODULE CalendarVec ----------------------------
(* Enumeration of (day, setting byte) vectors with the expected span: every  *)
(* state is one input vector together with the output the specification      *)
(* demands; the harness replays each into the real counterSpan().            *)
EXTENDS Calendar, TLC
CONSTANTS Days,        \* set of day numbers
          Bytes        \* set of first bytes of the weekends file (0 = empty/blank file)
VARIABLES day, byte, ok, begin, end

Init == /\ day \in Days
        /\ byte \in Bytes
        /\ ok = (byte # 0)
        /\ begin = Begin(day)
        /\ end = IF byte = 0 THEN 0 ELSE End(day, SettingOfByte(byte))
Next == UNCHANGED <<day, byte, ok, begin, end>>

Sane == ok => SpanOK(day, SettingOfByte(byte))
=============================================================================
