--------------------------- MODULE SidecarConcrete ---------------------------
(* C16: the concrete shapes behind the abstract values of a table row, each  *)
(* with the class it belongs to.  TLC enumerates them (every state is one    *)
(* vector); checks/c16.py deals them out over the rows so that every vector  *)
(* is executed.  `silent` marks shapes about which neither the property nor  *)
(* the documentation says to which class they belong: a clause that fails on *)
(* such a row is reported as a divergence, not as a violation.               *)
EXTENDS SidecarDecision

(* ---- GO_TELEMETRY_CHILD: exact strings ---------------------------------- *)
MarkerCores == {"", "1", "2", "0", "3", "11", "12", "21", "01", "true", "-1", "child"}
MarkerPads  == {"none", "trail-space", "lead-space", "trail-nl"}
MarkerVecs  == {v \in [dim : {"marker"}, core : MarkerCores, pad : MarkerPads, set : BOOLEAN] :
                  ~v.set => (v.core = "" /\ v.pad = "none")}
MarkerClass(v) == IF ~v.set \/ (v.core = "" /\ v.pad = "none") THEN "unset"
                  ELSE IF v.pad = "none" /\ v.core \in {"1", "2"} THEN v.core
                  ELSE "other"

(* ---- the mode file ------------------------------------------------------ *)
(* kind: a text file, no file, a directory in its place, or no configuration *)
(* directory at all (neither HOME nor XDG_CONFIG_HOME: telemetry is off)     *)
ModeWords  == {"on", "off", "local", "OFF", "On", "bogus", "", "offf", "of"}
ModeDates  == {"none", "valid", "garbage"}
ModeTrails == {"", "nl", "space", "crlf", "tab"}
ModeLeads  == {"", "space"}
ModeVecs == {v \in [dim : {"mode"}, kind : {"text"}, word : ModeWords, lead : ModeLeads, date : ModeDates, trail : ModeTrails] :
               v.word \in {"on", "off"} \/ (v.lead = "" /\ v.date \in {"none", "valid"} /\ v.trail \in {"", "nl"})}
            \cup [dim : {"mode"}, kind : {"missing", "directory", "noconfigdir"}, word : {""}, lead : {""}, date : {"none"}, trail : {""}]
ModeClass(v) == CASE v.kind = "noconfigdir" -> "off"
                  [] v.kind \in {"missing", "directory"} -> "local"
                  [] OTHER -> IF v.word \in {"on", "off"} THEN v.word ELSE "local"
ModeSilent(v) == v.kind = "text" /\ (v.lead # "" \/ v.trail = "tab")

(* ---- the token: age against the 24 hour period, kind of file ------------ *)
Period == 86400
TokenAges == {5, 3600, Period - 20, Period + 1, Period + 180, 90000, 2592000, -3600}
TokenVecs == [dim : {"token"}, kind : {"empty", "content", "dir"}, age : TokenAges]
             \cup [dim : {"token"}, kind : {"none", "dangling", "loop"}, age : {0}]
TokenClass(v) == CASE v.kind = "none" -> "absent"
                   [] v.kind \in {"dangling", "loop"} -> "ghost"
                   [] OTHER -> IF v.age < Period THEN "fresh" ELSE "stale"
TokenSilent(v) == v.age < 0           \* modification time in the future

(* ---- the local directory ------------------------------------------------ *)
LocalVecs == [dim : {"local"}, kind : {"exists", "absent", "notelemetrydir", "dangling", "file"}]
LocalClass(v) == v.kind \in {"exists", "absent", "notelemetrydir"}

(* ---- the upload flag a sidecar finds in its environment ----------------- *)
UpvarVecs == [dim : {"upvar"}, text : {"1", "", "0", "true", "11", "unset"}]
UpvarClass(v) == v.text = "1"

VARIABLE vec, class, silent
Vecs == MarkerVecs \cup ModeVecs \cup TokenVecs \cup LocalVecs \cup UpvarVecs
Init == /\ vec \in Vecs
        /\ class = CASE vec.dim = "marker" -> MarkerClass(vec) [] vec.dim = "mode" -> ModeClass(vec)
                     [] vec.dim = "token" -> TokenClass(vec) [] vec.dim = "local" -> LocalClass(vec)
                     [] vec.dim = "upvar" -> UpvarClass(vec)
        /\ silent = CASE vec.dim = "mode" -> ModeSilent(vec) [] vec.dim = "token" -> TokenSilent(vec) [] OTHER -> FALSE
Next == UNCHANGED <<vec, class, silent>>
(* every abstract value has a firm (non-silent) concrete shape, and both     *)
(* sides of the 24 h boundary are present within a minute of it              *)
ASSUME \A m \in Markers : \E v \in MarkerVecs : MarkerClass(v) = m
ASSUME \A m \in Modes : \E v \in ModeVecs : ModeClass(v) = m /\ ~ModeSilent(v)
ASSUME \A t \in Tokens : \E v \in TokenVecs : TokenClass(v) = t /\ ~TokenSilent(v)
ASSUME \E a, b \in TokenAges : a < Period /\ b >= Period /\ b - a < 60
TypeOK == /\ (vec.dim = "marker" => class \in Markers) /\ (vec.dim = "mode" => class \in Modes)
          /\ (vec.dim = "token" => class \in Tokens) /\ (vec.dim \in {"local", "upvar"} => class \in BOOLEAN)
=============================================================================
