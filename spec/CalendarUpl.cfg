SPECIFICATION Spec
INVARIANTS Independent WeekIsOwnEnd NothingInvented
CHECK_DEADLOCK FALSE
CONSTANTS
 Base = 19730
 Ends = {1, 2, 4, 7}
 Starts = {0, 86399, 86400, 86401, 172800, 172801, 259200, 345600, 345601, 604800, 604801, 700000}
