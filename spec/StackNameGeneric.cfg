\* EXPECTED TO FAIL: with the unrendered instantiation component InjectiveStacks has a
\* counter-example (two instantiations of a generic function); it is the witness replayed on the real code
INIT InitPair
NEXT Next
INVARIANTS InjectiveRender InjectiveStacks
CHECK_DEADLOCK FALSE
CONSTANTS
 MaxLen = 14
 StrLen = 6
 SeqLen = 3
 PairLen = 1
 Generic = TRUE
 Deeps = {5}
