----------------------------- MODULE StackNameMC -----------------------------
(* Three exhaustive enumerations over StackName (selected by the cfg):       *)
(*  Dec : every string of length <= StrLen over {", ., newline, x, y}        *)
(*  Enc : every frame sequence of length <= SeqLen over Paths x Fns, for     *)
(*        every prefix, with every valid (optional-ditto) encoding           *)
(*  Pair: every pair of frame sequences of length <= PairLen                 *)
(*  Single: for every depth n in Deeps and every position k in 1..n, a deep  *)
(*        stack and the stack that differs from it in frame k only (frame 1  *)
(*        is the innermost): different stacks at whatever depth the          *)
(*        difference lies                                                    *)
(* Each state is an input with the outputs the specification demands; the    *)
(* harness replays them on DecodeStack / EncodeStack / StackCounter.Inc.     *)
EXTENDS StackName
CONSTANTS StrLen, SeqLen, PairLen, Generic, Deeps
\* Deeps: the stack depths of mode "single"
\* Generic = TRUE adds the hidden instantiation component (finding F18)

Chars == {Q, D, N, "x", "y"}
Paths == {<<>>, <<"x">>, <<"y">>, <<"x", D, "y">>, <<"x", D, D>>}
Fns == {<<"x">>, <<"y">>}
Prefixes == {<<>>, <<"x">>, <<"x", D, "y">>}      \* the counter's own name: empty, plain, dotted
Insts == IF Generic THEN {1, 2} ELSE {0}
FrameSet == {[path |-> p, fn |-> f, inst |-> IF p = <<"x", D, D>> THEN i ELSE 0] : p \in Paths, f \in Fns, i \in Insts}
SeqsUpTo(S, n) == UNION {[1..k -> S] : k \in 0..n}

VARIABLES mode, s, dec, prefix, frs, frs2, enc, unc, alts,
          depth      \* mode single: how many frames the stack counter records (0 elsewhere)
vars == <<mode, s, dec, prefix, frs, frs2, enc, unc, alts, depth>>

None == <<>>
InitDec == /\ mode = "dec"
           /\ s \in SeqsUpTo(Chars, StrLen)
           /\ dec = ToStr(Decode(s))
           /\ prefix = None /\ frs = None /\ frs2 = None /\ enc = "" /\ unc = "" /\ alts = {} /\ depth = 0
InitEnc == /\ mode = "enc"
           /\ prefix \in Prefixes
           /\ frs \in SeqsUpTo(FrameSet, SeqLen) \ {<<>>}
           /\ enc = ToStr(EncodeT(prefix, frs))
           /\ unc = ToStr(Uncompressed(prefix, frs))
           /\ alts = {ToStr(EncodeWith(prefix, frs, ds)) : ds \in SUBSET Dittoable(frs)}
           /\ s = None /\ dec = "" /\ frs2 = None /\ depth = 0
InitPair == /\ mode = "pair"
            /\ prefix \in Prefixes
            /\ frs \in SeqsUpTo(FrameSet, PairLen) \ {<<>>}
            /\ frs2 \in SeqsUpTo(FrameSet, PairLen) \ {<<>>}
            /\ enc = "" /\ unc = "" /\ alts = {} /\ s = None /\ dec = "" /\ depth = 0
BaseFrame == [path |-> <<"x">>, fn |-> <<"x">>, inst |-> 0]
OtherFrames == {[path |-> <<"x">>, fn |-> <<"y">>, inst |-> 0], [path |-> <<"y">>, fn |-> <<"x">>, inst |-> 0]}
InitSingle == /\ mode = "single"
              /\ prefix = <<"x">>
              /\ \E n \in Deeps, k \in 1..Max(Deeps) : \E o \in OtherFrames :
                    /\ k <= n
                    /\ frs = [i \in 1..n |-> BaseFrame]
                    /\ frs2 = [i \in 1..n |-> IF i = k THEN o ELSE BaseFrame]
                    \* the counter records the innermost `depth` frames: none, just short of
                    \* the difference, just reaching it, the whole stack, more than there is
                    /\ depth \in {0, k - 1, k, n, n + 3}
              /\ enc = "" /\ unc = "" /\ alts = {} /\ s = None /\ dec = ""
Next == UNCHANGED vars

(* ---- theorems on strings (mode dec) ------------------------------------ *)
Identity == mode = "dec" => (~HasNL(s) => Decode(s) = s)
DecodeShape == mode = "dec" => LET d == Decode(s) IN
                 /\ Len(Split(d)) = Len(Split(s))            \* never adds or drops a line
                 /\ Split(d)[1] = Split(s)[1]                 \* the counter's own name is kept
                 /\ Decode(d) = d                             \* expanding twice changes nothing
                 /\ IsStack(d) = IsStack(s)
AbsCommutes == mode = "dec" => LinesEq(Abs(Decode(s)), LDec(Abs(s)))

(* ---- theorems on frame sequences (mode enc) ---------------------------- *)
RoundTrip == mode = "enc" =>
    \A ds \in SUBSET Dittoable(frs) : Decode(EncodeWith(prefix, frs, ds)) = Uncompressed(prefix, frs)
Bounded == mode = "enc" => LET e == EncodeT(prefix, frs) IN
    /\ Len(e) <= MaxLen
    /\ Marked(e) = (Len(Encode(prefix, frs)) > MaxLen)
    /\ ~Marked(e) => Decode(e) = Uncompressed(prefix, frs)
    /\ Len(Decode(e)) >= 0                                    \* expanding a cut name is defined
    /\ IsStack(e) /\ ~IsStack(prefix)
Shortest == mode = "enc" => \A ds \in SUBSET Dittoable(frs) :
    Len(Encode(prefix, frs)) <= Len(EncodeWith(prefix, frs, ds))

(* ---- injectivity (mode pair) ------------------------------------------- *)
Untruncated(p, f) == ~Marked(EncodeT(p, f))
\* different renderings, different names
InjectiveRender == mode = "pair" =>
    ((Lines(prefix, frs) # Lines(prefix, frs2) /\ Untruncated(prefix, frs) /\ Untruncated(prefix, frs2))
        => EncodeT(prefix, frs) # EncodeT(prefix, frs2))
\* different stacks, different names: FALSE when Generic (two instantiations
\* of one generic function render alike) -- the counter-example is the witness
\* that is replayed on the real code
InjectiveStacks == mode = "pair" =>
    ((frs # frs2 /\ Untruncated(prefix, frs) /\ Untruncated(prefix, frs2))
        => EncodeT(prefix, frs) # EncodeT(prefix, frs2))

(* ---- one differing frame at any depth (mode single; MaxLen large) ------- *)
Recorded(f, d) == IF d >= Len(f) THEN f ELSE SubSeq(f, 1, d)
(* the two stacks are one stack for the counter exactly when the difference   *)
(* lies below what it records; then, and only then, the names coincide        *)
DepthDecides == mode = "single" =>
    LET a == Recorded(frs, depth)  b == Recorded(frs2, depth) IN
    /\ (a = b) = (\A i \in 1..Len(frs) : frs[i] # frs2[i] => i > depth)
    /\ (EncodeT(prefix, a) = EncodeT(prefix, b)) = (a = b)
SingleDiffers == mode = "single" =>
    LET e1 == EncodeT(prefix, frs)  e2 == EncodeT(prefix, frs2)
        d == {i \in 1..Len(frs) : frs[i] # frs2[i]} IN
    /\ Cardinality(d) = 1 /\ Len(frs) = Len(frs2)
    /\ ~Marked(e1) /\ ~Marked(e2)
    /\ e1 # e2                                            \* different stacks, different names
    /\ \A i \in 1..Len(frs) : (Lines(prefix, frs)[i + 1] # Lines(prefix, frs2)[i + 1]) = (i \in d)
=============================================================================
