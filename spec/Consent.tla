------------------------------ MODULE Consent ------------------------------
(* Property C02: nothing is uploaded or recorded beyond what the consent     *)
(* mode allows.                                                              *)
(*                                                                           *)
(* A state machine over what an observer of the telemetry directory and of   *)
(* the upload server sees: the mode file (ModeFile.tla), the count files     *)
(* with their begin/end days, the weekly reports (local = kept for the user, *)
(* ready = made uploadable, uploaded = acknowledged by the server) and the   *)
(* requests the server received.  The environment sets the mode through the  *)
(* library (SetMode), edits the mode file by hand (Edit), runs programs that *)
(* count (Collect), runs the uploader (Run) and lets time pass (Advance).    *)
(*                                                                           *)
(* Written from the property text and the package documentation.  The gating *)
(* relations (Uploadable, Sendable), the step functions and the clauses of   *)
(* the property live in ConsentOps.tla; here they become a state machine     *)
(* whose action properties TLC checks exhaustively and whose behaviours are  *)
(* replayed into the real code.                                              *)
EXTENDS ConsentOps, Sequences, TLC

CONSTANTS
  W,             \* week-end setting (0..6) of the programs run by Collect
  Collectors,    \* programs that use the counter API
  LongProgs,     \* the long-running program (a set with at most one element; {} = none)
  ModeFiles,     \* mode-file contents the initial state / a manual edit may produce
  InitFiles,     \* set of sets of count files [p, b, e] that may pre-exist
  InitReports,   \* set of records [local, ready, uploaded] (sets of weeks) that may pre-exist
  Starts,        \* set of <<day, tod>>: initial clock values
  ClockPoints,   \* set of <<day, tod>> the clock may advance to
  SetModes,      \* words given to SetMode (valid and invalid)
  SetPads,       \* paddings around the word (subset of Pads)
  SetZones,      \* zones the as-of instant is given in (subset of {"", "east", "west"})
  EmptyProgs,    \* programs whose pre-existing count files hold no counter
  SetDays,       \* dates given to SetMode
  Xs, Rates,     \* X of a run and SampleRate of the downloaded config, in 1/1024
  MaxRun, MaxSet, MaxEdit, MaxCollect, MaxAdv, MaxProc

VARIABLES modeFile,
          intent,      \* what the last accepted SetMode had to record (NoIntent after a manual edit)
          day, tod,
          files,       \* function: count file [p, b, e] -> total counted in it
          local, ready, uploaded,   \* sets of weeks (a week is named by its end day)
          requests,    \* set of [wk, run]: reports posted to the server, by run number
          proc,        \* the long-running counting process (ConsentOps.tla, NoProc)
          nProc,
          nRun, nSet, nEdit, nCollect, nAdv,
          init,        \* the initial observable state (never changes; lets a dumped state be replayed)
          last         \* the action that led here and its arguments
vars == <<modeFile, intent, day, tod, files, local, ready, uploaded, requests, proc, nProc, nRun, nSet, nEdit, nCollect, nAdv, init, last>>

Init == /\ modeFile \in ModeFiles
        /\ intent = NoIntent
        /\ \E s \in Starts : day = s[1] /\ tod = s[2]
        /\ \E fs \in InitFiles : files = [f \in fs |-> IF f.p \in EmptyProgs THEN 0 ELSE 1]
        /\ \E r \in InitReports : local = r.local /\ ready = r.ready /\ uploaded = r.uploaded
        /\ requests = {}
        /\ proc = NoProc /\ nProc = 0
        /\ nRun = 0 /\ nSet = 0 /\ nEdit = 0 /\ nCollect = 0 /\ nAdv = 0
        /\ init = [modeFile |-> modeFile, day |-> day, tod |-> tod, files |-> DOMAIN files,
                   local |-> local, ready |-> ready, uploaded |-> uploaded]
        /\ last = Act("init", "", 0, 0, TRUE)

Cur == St(modeFile, intent, day, tod, files, local, ready, uploaded, requests, proc)
Nxt == St(modeFile', intent', day', tod', files', local', ready', uploaded', requests', proc')
Becomes(t) == /\ modeFile' = t.modeFile /\ intent' = t.intent /\ day' = t.day /\ tod' = t.tod /\ files' = t.files
              /\ local' = t.local /\ ready' = t.ready /\ uploaded' = t.uploaded /\ requests' = t.requests /\ proc' = t.proc

Run(x, rate) ==
    /\ nRun < MaxRun
    /\ Becomes(RunStep(Cur, x, rate, nRun + 1))
    /\ nRun' = nRun + 1
    /\ last' = Act("run", "", x, rate, TRUE)
    /\ UNCHANGED <<nSet, nEdit, nCollect, nAdv, nProc, init>>

SetMode(m, p, tz, d, acc) ==
    /\ nSet < MaxSet
    /\ (m \in ValidModes => modeFile.k # "unreadable")   \* the file cannot be written either: the property is silent
    /\ ((p = "" \/ m \notin ValidModes) => acc)      \* one transition per distinct outcome
    /\ Becomes(SetStep(Cur, m, p, d, acc))
    /\ last' = ActZ("set", m, p, tz, d, 0, SetAccepted(m, p, acc))
    /\ nSet' = nSet + 1
    /\ UNCHANGED <<nRun, nEdit, nCollect, nAdv, nProc, init>>

Edit(mf) ==
    /\ nEdit < MaxEdit /\ mf # modeFile
    /\ modeFile' = mf
    /\ intent' = NoIntent
    /\ nEdit' = nEdit + 1
    /\ last' = Act("edit", "", 0, 0, TRUE)
    /\ UNCHANGED <<day, tod, files, local, ready, uploaded, requests, proc, nProc, nRun, nSet, nCollect, nAdv, init>>

Collect(p) ==
    /\ nCollect < MaxCollect
    /\ Becomes(CollectStep(Cur, p, W))
    /\ nCollect' = nCollect + 1
    /\ last' = Act("collect", p, 0, 0, TRUE)
    /\ UNCHANGED <<nRun, nSet, nEdit, nAdv, nProc, init>>

(* the long-running process: open/rotate (+ one increment), and an increment    *)
(* between rotations.  An increment while the process still holds a file it     *)
(* opened before the mode became off is not generated (see ConsentOps.tla).     *)
PRotate(p) ==
    /\ nProc < MaxProc
    /\ Becomes(ProcRotateStep(Cur, p, W))
    /\ nProc' = nProc + 1
    /\ last' = Act("protate", p, 0, 0, TRUE)
    /\ UNCHANGED <<nRun, nSet, nEdit, nCollect, nAdv, init>>
PInc(p) ==
    /\ nProc < MaxProc
    /\ proc.st = "disabled" \/ (proc.st = "open" /\ EffMode(Gov(Cur)) # "off")
    /\ Becomes(ProcIncStep(Cur))
    /\ nProc' = nProc + 1
    /\ last' = Act("pinc", p, 0, 0, TRUE)
    /\ UNCHANGED <<nRun, nSet, nEdit, nCollect, nAdv, init>>

Advance(pt) ==
    /\ nAdv < MaxAdv /\ Later(pt, <<day, tod>>)
    /\ day' = pt[1] /\ tod' = pt[2]
    /\ nAdv' = nAdv + 1
    /\ last' = Act("advance", "", 0, 0, TRUE)
    /\ UNCHANGED <<modeFile, intent, files, local, ready, uploaded, requests, proc, nProc, nRun, nSet, nEdit, nCollect, init>>

Next == \/ \E x \in Xs, rate \in Rates : Run(x, rate)
        \/ \E m \in SetModes, p \in SetPads, tz \in SetZones, d \in SetDays, acc \in BOOLEAN : SetMode(m, p, tz, d, acc)
        \/ \E mf \in ModeFiles : Edit(mf)
        \/ \E p \in Collectors : Collect(p)
        \/ \E p \in LongProgs : PRotate(p) \/ PInc(p)
        \/ \E pt \in ClockPoints : Advance(pt)
Spec == Init /\ [][Next]_vars

(* ---- the property (clauses in ConsentOps.tla) as action properties ---------- *)
RequestOnlyWhenOn == [][C_RequestOnlyWhenOn(last', Cur, Nxt)]_vars
UploadableOnlyIf  == [][C_UploadableOnlyIf(last', Cur, Nxt)]_vars
SentOnlyIf        == [][C_SentOnlyIf(last', Cur, Nxt)]_vars
OffChangesNothing == [][C_OffChangesNothing(last', Cur, Nxt)]_vars
OtherBehavesLocal == [][C_OtherBehavesLocal(last', Cur, Nxt)]_vars
SetGet            == [][C_SetGet(last', Cur, Nxt)]_vars
DisabledStaysSilent == [][C_DisabledStaysSilent(last', Cur, Nxt)]_vars
(* no counter file comes into being while the governing mode is off *)
NoFileBornUnderOff == [][ExactlyOff(Gov(Cur)) /\ last'.op # "set" /\ last'.op # "edit" => DOMAIN files' \subseteq DOMAIN files]_vars

(* ---- state invariants (sanity of the model) --------------------------------- *)
TypeOK == /\ IsModeFile(modeFile)
          /\ (intent = NoIntent \/ intent = modeFile)     \* in the specification the file is what was asked for
          /\ \A f \in DOMAIN files : f.b < f.e /\ files[f] >= 0
          /\ \A r \in requests : r.run \in 1..nRun
          /\ proc.st \in {"none", "open", "disabled"} /\ (proc.st = "open" <=> proc.f # NoProcFile)
(* a week is posted at most once over a whole history, and what the server      *)
(* acknowledged is recorded as uploaded and is no longer waiting                *)
OneRequestPerWeek == \A r1, r2 \in requests : r1.wk = r2.wk => r1 = r2
RequestsRecorded == \A r \in requests : r.wk \in uploaded /\ r.wk \notin ready
(* a consequence of the two gating relations: what a run makes uploadable it    *)
(* may also send (opt-in date < begin < end = week <= today), so a run that the *)
(* server acknowledges never leaves a new ready report behind                   *)
NoNewReadyLeftBehind == [][ready' \subseteq ready]_vars
View == <<modeFile, intent, day, tod, files, local, ready, uploaded, requests, proc, nProc, nRun, nSet, nEdit, nCollect, nAdv, init>>
=============================================================================
