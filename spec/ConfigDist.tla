----------------------------- MODULE ConfigDist -----------------------------
(* Extension engine X02: generation and distribution of the upload           *)
(* configuration.                                                            *)
(*                                                                           *)
(*   config.txt --Parse--> chart records --generate--> UploadConfig          *)
(*     --json--> config.json (module golang.org/x/telemetry/config)          *)
(*     --go mod download--> configstore.Download --> config.NewConfig        *)
(*     --> HasProgram / HasVersion / HasCounter / HasStack / Rate lookups    *)
(*   (+ internal/unionfs, the union of embedded file trees the services      *)
(*    serve their content from)                                              *)
(*                                                                           *)
(* The operators are written from the package documentation of               *)
(* internal/chartconfig ("Chart records", "Counter expressions"), the doc    *)
(* comments of internal/configgen (generate, contains, padVersions,          *)
(* ValidateChartConfig), internal/configstore (Download), config/doc.go,     *)
(* internal/unionfs and the io/fs interface contracts -- not from the code.  *)
(*                                                                           *)
(* GUARANTEES a user of this part relies on                                  *)
(*                                                                           *)
(* G1 (acceptance is the chart configuration).  For the Config made from     *)
(*    the generated upload configuration:  a program is known exactly when   *)
(*    some chart record names it;  a counter NAME is accepted under a        *)
(*    program exactly when it is one of the names a non-stack record of      *)
(*    THAT program expands to (chart:{b1,...,bn} names chart:b1 ...          *)
(*    chart:bn and nothing else -- not the expression itself, no prefix,     *)
(*    suffix or other near miss, and never a record of another program);     *)
(*    a stack name exactly when a record with a depth names it;  accepted    *)
(*    names carry rate 1 in their own table and every other name rate 0;     *)
(*    HasVersion / HasGoVersion answer exactly the generated lists.          *)
(*    [AcceptCounter, AcceptStack, PrefixKnown, ChartActive, FlowClauses]    *)
(*                                                                           *)
(* G2 (version window).  The versions listed for a program are: every known  *)
(*    version not older than the smallest minimum version among the          *)
(*    program's records ("version: the first program version for which this  *)
(*    chart applies"; no version field = all versions), NEVER a version      *)
(*    older than that minimum, and besides known versions only "potential    *)
(*    next versions" (padVersions), i.e. versions newer than the newest      *)
(*    known release -- among them the next patch and the next minor release  *)
(*    when the padding allows one release; toolchain programs list known Go  *)
(*    versions only.  The list is strictly ascending.             [ListedOK] *)
(*                                                                           *)
(* G3 (generation is a function, and fails exactly on incoherent records).   *)
(*    The upload configuration is a function of the record list and of the   *)
(*    SETS of versions the proxy lists (order, duplicates and os/arch        *)
(*    variants of toolchain versions are irrelevant); programs appear once,  *)
(*    ordered by name; GoVersion is the ascending duplicate-free list of the *)
(*    toolchain's Go versions.  generate fails, blaming the first faulty     *)
(*    record and describing ALL its problems, exactly when some record       *)
(*    misses a mandatory field (title, issue, program, counter, type), has   *)
(*    a negative depth, a depth on a non-stack chart, or a version that is   *)
(*    not a valid version for the kind of program.        [Problems, Valid]  *)
(*                                                                           *)
(* G4 (still valid).  contains(outer, inner) -- the test configgen uses to   *)
(*    keep the published config.json -- holds exactly when outer lists all   *)
(*    program versions of inner and is otherwise equivalent to inner;        *)
(*    consequently everything accepted under inner is accepted under outer   *)
(*    at the same rate and with the same sampling.   [ContainsSpec, Accepts] *)
(*                                                                           *)
(* G5 (faithful distribution; module ConfigDistStore).  Download(v) returns  *)
(*    exactly the configuration published as version v together with v's     *)
(*    canonical version; "" and "latest" select the newest published release *)
(*    (a pre-release only when nothing else exists); a version that was      *)
(*    never published, a module without config.json or with malformed JSON   *)
(*    gives an error and NO configuration; published versions never change;  *)
(*    every call is counted once.                                            *)
(*                                                                           *)
(* G6 (union file system; module ConfigDistUnion).  Open(name) succeeds      *)
(*    exactly when some layer provides name and yields the entry of the      *)
(*    EARLIEST such layer; ReadDir(name) lists exactly the union of the      *)
(*    layers' directories, every name once with the entry of the earliest    *)
(*    layer, sorted by file name (fs.ReadDirFS); Sub fails exactly when one  *)
(*    of the directories is missing.                                         *)
(*                                                                           *)
(* LIMIT stated once: an upload configuration has ONE version list per       *)
(* program, so a chart's counters are also accepted for program versions     *)
(* between the program's smallest minimum and the chart's own minimum; G1/G2 *)
(* are therefore stated per program.                                         *)
EXTENDS Integers, Sequences, FiniteSets

Rng(s) == {s[i] : i \in DOMAIN s}

(* ------------------------------------------------------------------------ *)
(* Versions.  A version is a 4-tuple compared lexicographically.             *)
(*   semantic version  vA.B.C        <<A, B, C, Rel>>                        *)
(*                     vA.B.C-pre.K  <<A, B, C, K>>      (K < Rel)           *)
(*   Go version        go1.N         <<1, N, 0, 0>>   (language version)     *)
(*                     go1.NbetaK    <<1, N, 1, K>>                          *)
(*                     go1.NrcK      <<1, N, 2, K>>                          *)
(*                     go1.N.K       <<1, N, 3, K>>                          *)
(* NoVer (the empty tuple) = "no version field": the chart applies to all.   *)
Rel == 99
NoVer == <<>>
V0 == <<0, 0, 0, Rel>>                  \* v0.0.0: older than every release
VLess(x, y) == \/ x[1] < y[1]
               \/ x[1] = y[1] /\ x[2] < y[2]
               \/ x[1] = y[1] /\ x[2] = y[2] /\ x[3] < y[3]
               \/ x[1] = y[1] /\ x[2] = y[2] /\ x[3] = y[3] /\ x[4] < y[4]
VLeq(x, y) == x = y \/ VLess(x, y)
IsRelease(v) == v[4] = Rel
NextPatch(v) == <<v[1], v[2], v[3] + 1, Rel>>
NextMinor(v) == <<v[1], v[2] + 1, 0, Rel>>
NextMajor(v) == <<v[1] + 1, 0, 0, Rel>>
MaxV(S) == CHOOSE v \in S : \A w \in S : VLeq(w, v)
MinV(S) == CHOOSE v \in S : \A w \in S : VLeq(v, w)
(* the newest known release; v0.0.0 when no release is known *)
LatestRelease(known) == LET R == {v \in known : IsRelease(v)} IN IF R = {} THEN V0 ELSE MaxV(R)
AtLeast(v, m) == m = NoVer \/ VLeq(m, v)

(* ------------------------------------------------------------------------ *)
(* Chart records (validated):                                                *)
(*   [prog, chart, bks, depth, min]                                          *)
(* chart = token of the chart name, bks = bucket tokens (<<>>: the counter   *)
(* field is a single name without braces; a name "chart:bucket" written      *)
(* without braces is the one-bucket list), depth = 0 for ordinary counters,  *)
(* min = NoVer or the record's first version.                                *)
(* A counter NAME is <<chart, bucket>>, bucket 0 = the bare chart name.      *)
Names(r) == IF r.bks = <<>> THEN {<<r.chart, 0>>} ELSE {<<r.chart, r.bks[i]>> : i \in DOMAIN r.bks}

RecsOf(recs, p) == {i \in DOMAIN recs : recs[i].prog = p}
CounterRecs(recs, p) == {i \in RecsOf(recs, p) : recs[i].depth = 0}
StackRecs(recs, p) == {i \in RecsOf(recs, p) : recs[i].depth > 0}
ProgsOf(recs) == {recs[i].prog : i \in DOMAIN recs}

AcceptCounter(recs, p, n) == \E i \in CounterRecs(recs, p) : n \in Names(recs[i])
AcceptStack(recs, p, n) == \E i \in StackRecs(recs, p) : n \in Names(recs[i])
(* the viewer's "active chart": some counter record of p has this chart name *)
ChartActive(recs, p, c) == \E i \in CounterRecs(recs, p) : recs[i].chart = c
(* ... and it has buckets, so that <chart> is the part before the ':'         *)
PrefixKnown(recs, p, c) == \E i \in CounterRecs(recs, p) : recs[i].chart = c /\ recs[i].bks # <<>>

(* the smallest minimum among the program's records; one record without a   *)
(* version makes the program apply to all versions                          *)
MinVer(recs, p) == LET M == {recs[i].min : i \in RecsOf(recs, p)} IN
                   IF NoVer \in M THEN NoVer ELSE MinV(M)
Eligible(recs, p, known) == {v \in known : AtLeast(v, MinVer(recs, p))}

(* the class of inputs in which the pinned code is known to violate G2      *)
(* (finding X02-F1): the program's minimum version is newer than every      *)
(* known release, so that padding restarts at v0.0.0                        *)
MinAboveReleases(recs, p, known) ==
    /\ MinVer(recs, p) # NoVer
    /\ ~\E v \in known : IsRelease(v) /\ VLeq(MinVer(recs, p), v)

(* padding parameters [rel, maj, majmin, patch, pre] as in configgen.padding *)
(* G2 as clauses over the listed versions of program p (a sequence)          *)
ListedClauses(recs, p, known, listed, pad, tool) ==
    LET L == Rng(listed)
        m == MinVer(recs, p)
        top == LatestRelease(known)
    IN [ eligible   |-> Eligible(recs, p, known) \subseteq L,
         notbelow   |-> \A v \in L : AtLeast(v, m),
         onlynext   |-> \A v \in L \ known : ~tool /\ VLess(top, v),
         nextpatch  |-> (~tool /\ pad.rel >= 1 /\ pad.patch >= 1 /\ AtLeast(NextPatch(top), m)) => NextPatch(top) \in L,
         nextminor  |-> (~tool /\ pad.rel >= 1 /\ pad.majmin >= 1 /\ AtLeast(NextMinor(top), m)) => NextMinor(top) \in L,
         ascending  |-> \A i \in 1..(Len(listed) - 1) : VLess(listed[i], listed[i + 1]) ]
ListedOK(recs, p, known, listed, pad, tool) ==
    LET c == ListedClauses(recs, p, known, listed, pad, tool) IN \A k \in DOMAIN c : c[k]

(* ------------------------------------------------------------------------ *)
(* G3: coherence of a chart record, by field classes                         *)
(*   [title, nissue, prog, counter, type, depth, ver]                        *)
(*   title, counter \in BOOLEAN (set or empty); nissue = number of issues;   *)
(*   prog \in {"none", "tool", "mod"}; type \in {"none", "partition",        *)
(*   "stack"}; depth an integer; ver \in {"none", "semver", "gover", "junk"} *)
VersionFits(f) == \/ f.ver = "none"
                  \/ f.prog = "tool" /\ f.ver = "gover"
                  \/ f.prog # "tool" /\ f.ver = "semver"
Problems(f) == {x \in {"title", "issue", "program", "counter", "type", "negdepth", "depthtype", "version"} :
                  \/ x = "title" /\ ~f.title
                  \/ x = "issue" /\ f.nissue = 0
                  \/ x = "program" /\ f.prog = "none"
                  \/ x = "counter" /\ ~f.counter
                  \/ x = "type" /\ f.type = "none"
                  \/ x = "negdepth" /\ f.depth < 0
                  \/ x = "depthtype" /\ f.depth # 0 /\ f.type # "stack"
                  \/ x = "version" /\ ~VersionFits(f)}
Valid(f) == Problems(f) = {}
(* the first incoherent record of a list (0: none) *)
FirstInvalid(fs) == IF \A i \in DOMAIN fs : Valid(fs[i]) THEN 0
                    ELSE CHOOSE i \in DOMAIN fs : ~Valid(fs[i]) /\ \A j \in 1..(i - 1) : Valid(fs[j])

(* ------------------------------------------------------------------------ *)
(* G4: abstract upload configurations                                        *)
(*   [goos, goarch, gover : sequences, rate, progs : sequence of             *)
(*      [name, versions : seq, counters : seq of [name, rate, depth],        *)
(*       stacks : seq of the same]]                                          *)
ProgNames(c) == {c.progs[i].name : i \in DOMAIN c.progs}
ProgOf(c, n) == c.progs[CHOOSE i \in DOMAIN c.progs : c.progs[i].name = n]
ContainsSpec(o, i) ==
    /\ o.goos = i.goos /\ o.goarch = i.goarch /\ o.gover = i.gover
    /\ o.rate = i.rate
    /\ ProgNames(o) = ProgNames(i)
    /\ \A n \in ProgNames(i) :
          /\ Rng(ProgOf(i, n).versions) \subseteq Rng(ProgOf(o, n).versions)
          /\ ProgOf(o, n).counters = ProgOf(i, n).counters
          /\ ProgOf(o, n).stacks = ProgOf(i, n).stacks
(* what a configuration accepts: <<program, version, counter entry>> *)
Accepts(c) == UNION {{<<c.progs[k].name, v, e>> : v \in Rng(c.progs[k].versions),
                                                   e \in Rng(c.progs[k].counters) \cup Rng(c.progs[k].stacks)} : k \in DOMAIN c.progs}
=============================================================================
