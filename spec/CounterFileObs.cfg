SPECIFICATION Spec
INVARIANTS WellFormed UniqueNames Bounded Quiescent Monotone
CHECK_DEADLOCK FALSE
