-------------------------- MODULE TelemetryTrace --------------------------
(* code -> model for the composition Telemetry.tla.                          *)
(*                                                                           *)
(* e2etrace.ndjson holds, for every behaviour executed on the real code, one *)
(* line per step: the action with its arguments and the state OBSERVED after *)
(* it (abstracted by the driver into the module's vocabulary).  The model is *)
(* deterministic once the arguments are fixed, so TLC replays the recorded   *)
(* actions on the model (which yields the history variables hist and built)  *)
(* and judges every observed state:                                          *)
(*   Conform    the observed state is the model's state (trace validation)   *)
(*   the properties of Telemetry.tla evaluated on the OBSERVED components    *)
(* Every clause is a one-shot invariant: TLC runs with -continue and reports *)
(* the first line at which each clause fails.                                *)
EXTENDS Telemetry, Json

Trace == ndJsonDeserialize("e2etrace.ndjson")
VARIABLE l
tvars == <<vars, l>>

ToSet(s) == {s[i] : i \in DOMAIN s}
JRep(j) == [wk |-> j.wk, x |-> j.x, progs |-> ToSet(j.progs), data |-> ToSet(j.data)]
JReps(s) == {JRep(s[i]) : i \in DOMAIN s}
JMerged(s) == {[day |-> s[i].day, n |-> s[i].n, lines |-> JReps(s[i].lines)] : i \in DOMAIN s}
JCharts(s) == {[s |-> s[i].s, e |-> s[i].e, num |-> s[i].num, val |-> ToSet(s[i].val)] : i \in DOMAIN s}
JMode(j) == IF j.k = "text" THEN Text(j.w, j.d, j.pad) ELSE IF j.k = "absent" THEN Absent ELSE Unreadable

(* the observed state of line i in the model's types (the worker's part is   *)
(* observed at merge / chart steps and carried forward by the driver)        *)
OFiles(i) == ToSet(Trace[i].obs.files)
OLocal(i) == JReps(Trace[i].obs.local)
OReady(i) == JReps(Trace[i].obs.ready)
OUploaded(i) == JReps(Trace[i].obs.uploaded)
OStore(i) == JReps(Trace[i].obs.store)
OMerged(i) == JMerged(Trace[i].obs.merged)
OCharts(i) == JCharts(Trace[i].obs.charts)
OResp(i) == Trace[i].obs.resp
OMode(i) == JMode(Trace[i].obs.mode)

Starts == {i \in DOMAIN Trace : Trace[i].k = 0}

TInit == /\ l \in Starts
         /\ base = Trace[l].day /\ day = Trace[l].day /\ tod = Trace[l].tod
         /\ wend = Trace[l].wend
         /\ mf = OMode(l)
         /\ files = {} /\ local = {} /\ ready = {} /\ uploaded = {} /\ store = {}
         /\ merged = {} /\ charts = {} /\ resp = 0
         /\ hist = {} /\ built = {}
         /\ nInc = 0 /\ nRun = 0 /\ nDown = 0 /\ nSet = 0 /\ nWork = 0
         /\ last = Lbl("init", "", "", "", 0, TRUE, 0, 0)

TNext == /\ l + 1 \in DOMAIN Trace
         /\ Trace[l + 1].t = Trace[l].t
         /\ l' = l + 1
         /\ LET r == Trace[l + 1] IN
            CASE r.op = "inc"     -> Inc(r.p, r.n)
              [] r.op = "tick"    -> Tick(<<r.s, r.e>>)
              [] r.op = "setmode" -> SetMode(r.m)
              [] r.op = "run"     -> RunUploader(r.x, r.up)
              [] r.op = "merge"   -> Merge(r.s, r.e)
              [] r.op = "chart"   -> Chart(r.s, r.e)
TSpec == TInit /\ [][TNext]_tvars

OneShot(i, Ok) == IF ~Ok /\ TLCGet(i) = 0 THEN TLCSet(i, 1) /\ FALSE ELSE TRUE
ASSUME \A i \in 1..20 : TLCSet(i, 0)
Step == l \notin Starts          \* line l is the result of an action on line l - 1
Op == Trace[l].op

(* trace validation: what was observed is what the model says *)
ConformAt == /\ OFiles(l) = files /\ OLocal(l) = local /\ OReady(l) = ready /\ OUploaded(l) = uploaded
             /\ OStore(l) = store /\ OMode(l) = mf
             /\ OMerged(l) = merged /\ OCharts(l) = charts /\ OResp(l) = resp

(* the properties on the observed components (history variables from the replayed actions) *)
EndToEndAt == EndToEndOn(OStore(l), hist, built)
StoreIsApprovedSubsetAt == StoreIsApprovedSubsetOn(OStore(l), OLocal(l))
StoreValidAt == StoreValidOn(OStore(l))
MarkersMatchStoreAt == MarkersMatchStoreOn(OStore(l), OUploaded(l))
SendOnlyWithConsentAt == Step => SendOnlyWithConsentOn(OMode(l - 1), day, OStore(l - 1), OStore(l))
NothingInModeOffAt == Step => NothingInModeOffOn(OMode(l - 1), Op,
                                  <<OFiles(l - 1), OLocal(l - 1), OReady(l - 1), OUploaded(l - 1), OStore(l - 1)>>,
                                  <<OFiles(l), OLocal(l), OReady(l), OUploaded(l), OStore(l)>>)
LocalReportsCompleteAt == (Step /\ Op = "run") =>
    LocalReportsCompleteOn(OMode(l - 1), day, tod, OFiles(l - 1), OLocal(l - 1), OReady(l - 1), OUploaded(l - 1), OFiles(l), OLocal(l))
(* between runs only an increment changes the count files, and only its own cell *)
IncLandsAt == (Step /\ Op = "inc" /\ EffMode(OMode(l - 1)) # "off") =>
    IncLandsOn(Trace[l].p, Trace[l].n, day, wend, OFiles(l - 1), OFiles(l))
QuietAt == (Step /\ Op \in {"tick", "setmode", "merge", "chart"}) =>
    <<OFiles(l - 1), OLocal(l - 1), OReady(l - 1), OUploaded(l - 1), OStore(l - 1)>> = <<OFiles(l), OLocal(l), OReady(l), OUploaded(l), OStore(l)>>
MergeFaithfulAt == (Step /\ Op = "merge") =>
    MergeFaithfulOn(Trace[l].s, Trace[l].e, OStore(l), OMerged(l - 1), OMerged(l))
ChartCountsAt == (Step /\ Op = "chart") =>
    ChartCountsOn(Trace[l].s, Trace[l].e, OMerged(l), OResp(l), OCharts(l - 1), OCharts(l))

O_Conform == OneShot(1, ConformAt)
O_EndToEnd == OneShot(2, EndToEndAt)
O_StoreIsApprovedSubset == OneShot(3, StoreIsApprovedSubsetAt)
O_StoreValid == OneShot(4, StoreValidAt)
O_MarkersMatchStore == OneShot(5, MarkersMatchStoreAt)
O_SendOnlyWithConsent == OneShot(6, SendOnlyWithConsentAt)
O_NothingInModeOff == OneShot(7, NothingInModeOffAt)
O_LocalReportsComplete == OneShot(8, LocalReportsCompleteAt)
O_IncLands == OneShot(9, IncLandsAt)
O_Quiet == OneShot(10, QuietAt)
O_MergeFaithful == OneShot(11, MergeFaithfulAt)
O_ChartCounts == OneShot(12, ChartCountsAt)
=============================================================================
