-------------------------- MODULE CounterFileTrace --------------------------
(* code -> model for C04: a recorded interleaving of emulated processes on   *)
(* one count file (one line per scheduling step or kill, with the file as    *)
(* the independent decoder sees it after the step) must be a behaviour of    *)
(* CounterFile.tla.                                                          *)
EXTENDS CounterFile, Json

Trace == ndJsonDeserialize("c04trace.ndjson")
VARIABLE l

Matches(o) == /\ size = o.size /\ limit = o.limit /\ head = o.head
              /\ \A s \in 1..MaxSlots : rec[s] = o.rec[s]

TInit == Init /\ l = 2
Reset == /\ l <= Len(Trace) /\ Trace[l].t = "init"
         /\ size' = Size0 /\ limit' = Limit0
         /\ head' = Head0
         /\ rec' = Rec0
         /\ alive' = [p \in Procs |-> TRUE] /\ maplen' = [p \in Procs |-> Size0]
         /\ pc' = [p \in Procs |-> "P_start"] /\ ph' = [p \in Procs |-> 0] /\ rm' = [p \in Procs |-> FALSE]
         /\ lhead' = [p \in Procs |-> 0] /\ off' = [p \in Procs |-> 0] /\ lim' = [p \in Procs |-> 0]
         /\ start' = [p \in Procs |-> 0] /\ tries' = [p \in Procs |-> 0] /\ old' = [p \in Procs |-> 0]
         /\ vslot' = [p \in Procs |-> 0] /\ vold' = [p \in Procs |-> 0]
         /\ err' = [p \in Procs |-> "none"] /\ done' = [p \in Procs |-> 0]
         /\ l' = l + 1
Consume == /\ l <= Len(Trace) /\ Trace[l].t \in Procs
           /\ Step(Trace[l].t)
           /\ l' = l + 1
Killed == /\ l <= Len(Trace) /\ Trace[l].t = "kill"
          /\ Kill(Trace[l].victim)
          /\ l' = l + 1
Finished == l = Len(Trace) + 1 /\ UNCHANGED <<vars, l>>
TNext == Reset \/ Consume \/ Killed \/ Finished
TSpec == TInit /\ [][TNext]_<<vars, l>>
Conform == Matches(Trace[l - 1])
=============================================================================
