--------------------------- MODULE ConfigDistTrace ---------------------------
(* X02, code -> model.  One JSON object per line, written by the driver from *)
(* observations of the real code (the replayed TLC vectors as well as the    *)
(* randomized drivers); TLC decides every line and collects, per line, the   *)
(* clauses of G1..G4 / G6 that the observation falsifies.                    *)
(*                                                                           *)
(*  flow   chart-config text --Parse--> generate --JSON--> NewConfig, with   *)
(*         the lookups evaluated over a universe of names and versions:      *)
(*         recs (abstract records), tools, nprog, known[p], pads[p],         *)
(*         listed[p] (the program's Versions), hasver[p] (universe versions  *)
(*         HasVersion accepts), present[p] / inlist[p], ctr[p] / stk[p]      *)
(*         (universe names HasCounter / HasStack accept), rate1[p] /         *)
(*         srate1[p] (names with Rate / StackRate 1), odd[p] (names with     *)
(*         another non-zero rate), near[p] (near-miss strings some lookup    *)
(*         accepted), pfx[p] (charts HasCounterPrefix knows), order (name    *)
(*         ranks of the listed programs), gover / goknown / hasgover,        *)
(*         stable (regenerating from permuted version lists gave the same    *)
(*         bytes)                                                            *)
(*  valid  a record list by field classes; err / blamed / nprob observed     *)
(*  still  two configurations, contains(outer, inner) and whether every      *)
(*         lookup accepted under inner is accepted under outer (sub)         *)
(*  union  layers, the results of Open / ReadDir on every path, Sub          *)
EXTENDS ConfigDist, ConfigDistUnionOps, Json, TLC

Trace == ndJsonDeserialize("x02obs.ndjson")

Universe(r) == {<<c, b>> : c \in 1..r.nchart, b \in 0..r.nbucket}
Falses(c, p, k) == {<<x, p, k>> : x \in {y \in DOMAIN c : ~c[y]}}
Ascending(s) == \A i \in 1..(Len(s) - 1) : s[i] < s[i + 1]

FlowProg(r, p) ==
    LET inP == p \in ProgsOf(r.recs)
        tool == p \in Rng(r.tools)
        known == Rng(r.known[p])
        g1 == [ program |-> (r.present[p] = inP) /\ (r.inlist[p] = inP),
                counter |-> Rng(r.ctr[p]) = {n \in Universe(r) : AcceptCounter(r.recs, p, n)},
                stack   |-> Rng(r.stk[p]) = {n \in Universe(r) : AcceptStack(r.recs, p, n)},
                prefix  |-> \A c \in 1..r.nchart : /\ PrefixKnown(r.recs, p, c) => c \in Rng(r.pfx[p])
                                                   /\ c \in Rng(r.pfx[p]) => ChartActive(r.recs, p, c),
                rate    |-> /\ Rng(r.rate1[p]) = Rng(r.ctr[p]) /\ Rng(r.srate1[p]) = Rng(r.stk[p])
                            /\ r.odd[p] = 0,
                nearmiss |-> r.near[p] = 0,
                verlookup |-> Rng(r.hasver[p]) = Rng(r.listed[p]) ]
        g2 == IF inP THEN ListedClauses(r.recs, p, known, r.listed[p], r.pads[p], tool)
              ELSE [absent |-> r.listed[p] = <<>>]
        k == inP /\ ~tool /\ MinAboveReleases(r.recs, p, known)
    IN Falses(g1, p, FALSE) \cup Falses(g2, p, k)

FlowFailed(r) ==
    LET g3 == [ order    |-> Ascending(r.order) /\ Len(r.order) = Cardinality(ProgsOf(r.recs)),
                goversion |-> /\ Rng(r.gover) = Rng(r.goknown)
                              /\ \A i \in 1..(Len(r.gover) - 1) : VLess(r.gover[i], r.gover[i + 1])
                              /\ Rng(r.hasgover) = Rng(r.gover),
                function |-> r.stable ]
    IN UNION {FlowProg(r, p) : p \in 1..r.nprog} \cup Falses(g3, 0, FALSE)

ValidFailed(r) ==
    LET b == FirstInvalid(r.fs)
        c == [ errs   |-> r.err = (b # 0),
               blamed |-> (r.err /\ b # 0) => r.blamed = b,
               allproblems |-> (r.err /\ b # 0 /\ r.blamed = b) => r.nprob = Cardinality(Problems(r.fs[b])) ]
    IN Falses(c, 0, FALSE)

StillFailed(r) ==
    LET want == ContainsSpec(r.outer, r.inner)
        onlyrate == want # r.contains /\ ContainsSpec([r.outer EXCEPT !.rate = r.inner.rate], r.inner) = r.contains
        c == [ contains |-> r.contains = want,
               sound    |-> r.contains => r.sub ]
    IN Falses(c, 0, onlyrate)

NormLayer(l) == [n \in DOMAIN l |-> [k |-> l[n].k, kids |-> Rng(l[n].kids)]]
UnionFailed(r) ==
    LET ls == [i \in DOMAIN r.layers |-> NormLayer(r.layers[i])]
        OpOK(o) ==
            IF o.op = "open"
            THEN LET w == OpenRes(ls, o.path) IN
                 IF o.ok # w.ok THEN "open-ok"
                 ELSE IF w.ok /\ (o.kind # w.kind \/ (Len(o.path) > 0 /\ o.layer # w.layer)) THEN "open-entry"
                 ELSE ""
            ELSE IF TypeConflict(ls, o.path) THEN ""
            ELSE LET w == ReadDirRes(ls, o.path) IN
                 IF o.ok # w.ok THEN "readdir-ok"
                 ELSE IF ~w.ok THEN ""
                 ELSE IF Rng(o.list) # Rng(w.list) \/ Len(o.list) # Len(w.list) THEN "readdir-entries"
                 ELSE IF o.list # w.list THEN "readdir-sorted"
                 ELSE ""
    IN {<<OpOK(r.ops[i]), i, FALSE>> : i \in {j \in DOMAIN r.ops : OpOK(r.ops[j]) # ""}}
       \cup (IF r.subok = ~r.submissing THEN {} ELSE {<<"sub", 0, FALSE>>})

Failed(r) == CASE r.kind = "flow" -> FlowFailed(r)
               [] r.kind = "valid" -> ValidFailed(r)
               [] r.kind = "still" -> StillFailed(r)
               [] r.kind = "union" -> UnionFailed(r)
               [] OTHER -> {<<"unknown-kind", 0, FALSE>>}

(* every unexplained line is printed once as <<"X02BAD", line, failed clauses>>   *)
(* (the driver reads these lines; a state variable collecting them would make   *)
(* TLC print it in every state of a counter-example)                            *)
VARIABLE l
Init == l = 1
Next == /\ l <= Len(Trace)
        /\ LET f == Failed(Trace[l]) IN IF f = {} THEN TRUE ELSE PrintT(<<"X02BAD", l, f>>)
        /\ l' = l + 1
Accepted == TLCGet("stats").diameter = Len(Trace) + 1
=============================================================================
