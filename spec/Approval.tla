------------------------------ MODULE Approval ------------------------------
(* Upload-configuration semantics (properties C01 and C11).                  *)
(*                                                                           *)
(* Written from the property statements and the documentation of             *)
(* telemetry.UploadConfig / CounterConfig ("The collapsed counter:           *)
(* <chart>:{<bucket1>,<bucket2>,...}", "If X <= Rate, report this counter"), *)
(* not from the code.  This is a relational module: it defines what the      *)
(* uploader must send, what the upload server must accept and what the local *)
(* viewer must call "excluded" for a given configuration and local data.     *)
(*                                                                           *)
(* Vocabulary                                                                *)
(*   name    a counter name: a sequence of characters, each a one-character  *)
(*           string, except that the newline character is written "NL"       *)
(*   rate,X  integers 0..D standing for rate/D, X/D (D is a power of two so  *)
(*           the concrete float64 values are exact)                          *)
(*   build   [program, version, gover, goos, goarch] (strings)               *)
(*   config  [goos, goarch, gover : sets of strings, sample : 0..D,          *)
(*            progs : set of [name, versions : set of strings,               *)
(*                            counters, stacks : set of [name, rate]]]       *)
(*   file    [id, build, week, expired, counts : set of [n : name, v : Nat]]  *)
(*           a counter file in local/ (id only keeps equal files apart);      *)
(*           expired: its recorded end lies before the start of the run.      *)
(*           Only expired files are folded into reports: a file that is still *)
(*           active contributes to no sum and none of its names, values or   *)
(*           metadata may appear in a request.                               *)
(*   datum   [b : build, n : name, v : Nat]  one (build, name, value) triple *)
EXTENDS Integers, Sequences, FiniteSets

NL == "NL"

Rng(s) == {s[i] : i \in DOMAIN s}

(* ---- text ---------------------------------------------------------------*)
Pos(s, ch) == LET I == {i \in DOMAIN s : s[i] = ch}      \* index of the first ch in s, 0 if none
              IN IF I = {} THEN 0 ELSE CHOOSE i \in I : \A j \in I : i <= j
Before(s, ch) == LET p == Pos(s, ch) IN IF p = 0 THEN s ELSE SubSeq(s, 1, p - 1)
After(s, ch)  == LET p == Pos(s, ch) IN IF p = 0 THEN <<>> ELSE SubSeq(s, p + 1, Len(s))
RECURSIVE Split(_, _)
Split(s, ch) == IF Pos(s, ch) = 0 THEN <<s>> ELSE <<Before(s, ch)>> \o Split(After(s, ch), ch)

IsStack(n)   == Pos(n, NL) # 0            \* a stack counter's name continues after a newline
FirstLine(n) == Before(n, NL)             \* "the name before the first newline"

(* ---- the chart:{bucket,...} syntax ----------------------------------------*)
(* A configuration lists a counter either by its plain name or collapsed as  *)
(* <chart>:{<bucket1>,<bucket2>,...}, which stands for the counters          *)
(* <chart>:<bucket1>, <chart>:<bucket2>, ...                                 *)
IsCollapsed(e) == Pos(e, "{") # 0
WellFormedCounterEntry(e) ==
    /\ Len(e) > 0
    /\ \A i \in DOMAIN e : e[i] # NL
    /\ IF ~IsCollapsed(e)
       THEN \A i \in DOMAIN e : e[i] \notin {"}", ","}
       ELSE LET pre == Before(e, "{")  rest == After(e, "{") IN
            /\ Len(pre) >= 2 /\ pre[Len(pre)] = ":"
            /\ \A i \in DOMAIN pre : pre[i] \notin {"}", ","}
            /\ Len(rest) >= 2 /\ rest[Len(rest)] = "}"
            /\ LET inner == SubSeq(rest, 1, Len(rest) - 1) IN
               /\ \A i \in DOMAIN inner : inner[i] \notin {"{", "}"}
               /\ \A b \in Rng(Split(inner, ",")) : Len(b) > 0
Expand(e) ==
    IF ~IsCollapsed(e) THEN {e}
    ELSE LET pre == Before(e, "{")  rest == After(e, "{")
             inner == SubSeq(rest, 1, Len(rest) - 1)
         IN {pre \o b : b \in Rng(Split(inner, ","))}
WellFormedStackEntry(e) == Len(e) > 0 /\ \A i \in DOMAIN e : e[i] # NL

(* ---- domain of the semantics ---------------------------------------------*)
(* The property does not say which rate wins when a program lists the same   *)
(* (expanded) name twice, what a malformed entry stands for, or how two      *)
(* entries for one program name combine: such configurations are outside the *)
(* domain and are never generated.                                           *)
ConfigOK(cfg, D) ==
    /\ cfg.sample \in 0..D
    /\ \A p, q \in cfg.progs : p.name = q.name => p = q
    /\ \A p \in cfg.progs :
        /\ \A c \in p.counters : WellFormedCounterEntry(c.name) /\ c.rate \in 0..D
        /\ \A c, d \in p.counters : c # d => Expand(c.name) \cap Expand(d.name) = {}
        /\ \A s \in p.stacks : WellFormedStackEntry(s.name) /\ s.rate \in 0..D
        /\ \A s, t \in p.stacks : s.name = t.name => s = t
FilesOK(files) ==
    /\ Cardinality({f.id : f \in files}) = Cardinality(files)
    /\ \A f \in files : Cardinality({c.n : c \in f.counts}) = Cardinality(f.counts)    \* one record per name
    /\ \A f \in files : \A c \in f.counts : Len(c.n) > 0 /\ c.v >= 0

(* ---- approval --------------------------------------------------------------*)
HasProgram(cfg, prog) == \E p \in cfg.progs : p.name = prog
ProgOf(cfg, prog) == CHOOSE p \in cfg.progs : p.name = prog

(* C01: "programs whose package path, version and Go version are listed"     *)
Approved3(cfg, b) == /\ HasProgram(cfg, b.program)
                     /\ b.version \in ProgOf(cfg, b.program).versions
                     /\ b.gover \in cfg.gover
(* C11: the configuration also lists the GOOS and GOARCH values it covers    *)
Approved5(cfg, b) == Approved3(cfg, b) /\ b.goos \in cfg.goos /\ b.goarch \in cfg.goarch

(* counters and stacks are two separate lists of the program's entry          *)
CounterRates(cfg, prog, n) ==
    IF ~HasProgram(cfg, prog) \/ IsStack(n) THEN {}
    ELSE {c.rate : c \in {c \in ProgOf(cfg, prog).counters : n \in Expand(c.name)}}
StackRates(cfg, prog, n) ==
    IF ~HasProgram(cfg, prog) \/ ~IsStack(n) THEN {}
    ELSE {s.rate : s \in {s \in ProgOf(cfg, prog).stacks : s.name = FirstLine(n)}}
NameRates(cfg, prog, n) == IF IsStack(n) THEN StackRates(cfg, prog, n) ELSE CounterRates(cfg, prog, n)
NameListed(cfg, prog, n) == NameRates(cfg, prog, n) # {}
NameApproved(cfg, prog, n, X) == \E r \in NameRates(cfg, prog, n) : X <= r   \* "rate not below X"

(* ---- per-build sums and reports -------------------------------------------*)
WeekFiles(files, w) == {f \in files : f.week = w /\ f.expired}
RECURSIVE SumOver(_, _)
SumOver(fs, n) == IF fs = {} THEN 0
                  ELSE LET f == CHOOSE f \in fs : TRUE
                           here == {c \in f.counts : c.n = n}
                       IN (IF here = {} THEN 0 ELSE (CHOOSE c \in here : TRUE).v) + SumOver(fs \ {f}, n)
Sum(files, w, b, n) == SumOver({f \in WeekFiles(files, w) : f.build = b}, n)

(* the unfiltered weekly aggregate kept on the machine                        *)
LocalReport(files, w) ==
    UNION {{[b |-> f.build, n |-> c.n, v |-> Sum(files, w, f.build, c.n)] : c \in f.counts} : f \in WeekFiles(files, w)}

(* what a report built for week w under cfg with random X must contain, given *)
(* the build approval predicate A: the approved part of the local aggregate   *)
Filter(A(_, _), cfg, local, X) == {t \in local : A(cfg, t.b) /\ NameApproved(cfg, t.b.program, t.n, X)}
UploadReport(A(_, _), cfg, files, w, X) == Filter(A, cfg, LocalReport(files, w), X)
UploadReport3(cfg, files, w, X) == UploadReport(Approved3, cfg, files, w, X)
UploadReport5(cfg, files, w, X) == UploadReport(Approved5, cfg, files, w, X)
(* program entries a report may name at all                                   *)
UploadBuilds(A(_, _), cfg, files, w) == {f.build : f \in {f \in WeekFiles(files, w) : A(cfg, f.build)}}

(* Whether a report is uploaded at all also depends on the sampling rate of   *)
(* the configuration, about which the statements are silent: they constrain   *)
(* the reports that ARE sent.  That a report with approved data must be sent  *)
(* is demanded only where no reading of "sample rate" could drop it: the rate *)
(* is 1, or X lies strictly below it.                                         *)
MustSend(cfg, X, D) == cfg.sample = D \/ X < cfg.sample

(* C01 as a relation between the input and an observed request body: `progs` *)
(* the builds the body names, `data` its (build, name, value) triples.  The  *)
(* C01 statement approves builds on three fields, C11 on five; a body that   *)
(* follows either consistently satisfies C01.                                *)
BodyOK(A(_, _), cfg, files, w, X, progs, data) ==
    /\ data = UploadReport(A, cfg, files, w, X)
    /\ progs \subseteq UploadBuilds(A, cfg, files, w)
C01BodyOK(cfg, files, w, X, progs, data) ==
    \/ BodyOK(Approved3, cfg, files, w, X, progs, data)
    \/ BodyOK(Approved5, cfg, files, w, X, progs, data)

(* ---- the upload server ------------------------------------------------------*)
(* a report as the server sees it: a set of program entries                   *)
(* [build, counters : set of names, stacks : set of names]                    *)
CounterListed(cfg, prog, n) == HasProgram(cfg, prog) /\ \E c \in ProgOf(cfg, prog).counters : n \in Expand(c.name)
StackListed(cfg, prog, n)   == HasProgram(cfg, prog) /\ \E s \in ProgOf(cfg, prog).stacks : s.name = FirstLine(n)
ServerAccepts(cfg, rep) ==
    \A p \in rep : /\ Approved5(cfg, p.build)
                   /\ \A n \in p.counters : CounterListed(cfg, p.build.program, n)
                   /\ \A n \in p.stacks : StackListed(cfg, p.build.program, n)
ReportOf(data, progs) ==
    {[build |-> b,
      counters |-> {t.n : t \in {t \in data : t.b = b /\ ~IsStack(t.n)}},
      stacks   |-> {t.n : t \in {t \in data : t.b = b /\ IsStack(t.n)}}] : b \in progs \cup {t.b : t \in data}}

(* ---- the local viewer --------------------------------------------------------*)
(* The viewer cannot know X: it calls a data set excluded when its build is  *)
(* not approved and a counter excluded when the configuration does not list  *)
(* it for the program, i.e. when the uploader would drop it whatever X is.   *)
ViewerSetExcluded(cfg, b) == ~Approved5(cfg, b)
ViewerNameExcluded(cfg, prog, n) == ~NameListed(cfg, prog, n)
(* the per-field flags the viewer shows for a counter file                      *)
FieldListed(cfg, b) ==
    [Program   |-> HasProgram(cfg, b.program),
     Version   |-> HasProgram(cfg, b.program) /\ b.version \in ProgOf(cfg, b.program).versions,
     GoVersion |-> b.gover \in cfg.gover,
     GOOS      |-> b.goos \in cfg.goos,
     GOARCH    |-> b.goarch \in cfg.goarch]
ViewerExcludedNames(cfg, f) == {c.n : c \in {c \in f.counts : ViewerNameExcluded(cfg, f.build.program, c.n)}}
=============================================================================
