SPECIFICATION Spec
CONSTANTS
 NLeaf = 2
 NVia = 1
 Depth = 1
 StackTasks <- MCStackTasks
 Prog <- MCProg
 PlainTasks <- MCPlainTasks
 PlainIdx <- MCPlainIdx
 NAdds <- MCNAdds
 Rotators <- MCRot
 Tickers <- MCTick
 Observers <- MCObs
 NObs <- MCNObs
 InitOpen = FALSE
INVARIANTS TypeOK NoDup KnownAreBegun DoneAreKnown SnapIsPrefix Bounds Quiescent PtrLive DoneAreListed NoDeadlock
PROPERTIES PrefixMonotone
CHECK_DEADLOCK FALSE
