---- MODULE TelemetryTraceMC ----
(* Constants of the full universe for TelemetryTrace.tla (expects e2etrace.ndjson next to it; *)
(* checks/e2e.py writes one per run): tlc -continue -config TelemetryTrace.cfg TelemetryTraceMC.tla *)
EXTENDS TelemetryTrace
MCBuilds == {"A1", "A2", "A3", "U1", "U2", "U3"}
MCBuildRec == ("A1" :> [program |-> "example.com/e2e/alpha", version |-> "v1.0.0", gover |-> "go1.21.0", goos |-> "linux", goarch |-> "amd64"]) @@ ("A2" :> [program |-> "example.com/e2e/beta", version |-> "v2.0.0", gover |-> "go1.22.3", goos |-> "linux", goarch |-> "amd64"]) @@ ("A3" :> [program |-> "example.com/e2e/alpha", version |-> "v1.1.0", gover |-> "go1.21.0", goos |-> "linux", goarch |-> "amd64"]) @@ ("U1" :> [program |-> "example.com/e2e/alpha", version |-> "v9.9.9", gover |-> "go1.21.0", goos |-> "linux", goarch |-> "amd64"]) @@ ("U2" :> [program |-> "example.com/e2e/gamma", version |-> "v1.0.0", gover |-> "go1.21.0", goos |-> "linux", goarch |-> "amd64"]) @@ ("U3" :> [program |-> "example.com/e2e/alpha", version |-> "v1.0.0", gover |-> "go1.20.5", goos |-> "linux", goarch |-> "amd64"])
MCNames == {"ok", "ch:a", "ch:b", "ch:z", "no", "st"}
MCChars == ("ok" :> <<"o", "k">>) @@ ("ch:a" :> <<"c", "h", ":", "a">>) @@ ("ch:b" :> <<"c", "h", ":", "b">>) @@ ("ch:z" :> <<"c", "h", ":", "z">>) @@ ("no" :> <<"n", "o">>) @@ ("st" :> <<"s", "t", "NL", "f">>)
MCCarry == ("ok" :> <<"ok", "ok">>) @@ ("ch:a" :> <<"ch", "a">>) @@ ("ch:b" :> <<"ch", "b">>) @@ ("ch:z" :> <<"ch", "z">>) @@ ("no" :> <<"no", "no">>) @@ ("st" :> <<>>)
MCCfg == [goos |-> {"linux", "plan9"}, goarch |-> {"amd64", "riscv64"}, gover |-> {"go1.21.0", "go1.22.3"}, sample |-> 6, progs |-> {[name |-> "example.com/e2e/alpha", versions |-> {"v1.0.0", "v1.1.0"}, counters |-> {[name |-> <<"o", "k">>, rate |-> 8], [name |-> <<"c", "h", ":", "{", "a", ",", "b", "}">>, rate |-> 4]}, stacks |-> {[name |-> <<"s", "t">>, rate |-> 6]}],
   [name |-> "example.com/e2e/beta", versions |-> {"v2.0.0"}, counters |-> {[name |-> <<"o", "k">>, rate |-> 8], [name |-> <<"c", "h", ":", "{", "a", "}">>, rate |-> 8]}, stacks |-> {}]}]
MCChartDesc == {[p |-> "example.com/e2e/alpha", c |-> "Version", bk |-> {<<"v1.0.0", "v1.0.0">>, <<"v1.1.0", "v1.1.0">>}],
   [p |-> "example.com/e2e/alpha", c |-> "GOOS", bk |-> {<<"linux", "linux">>, <<"plan9", "plan9">>}],
   [p |-> "example.com/e2e/alpha", c |-> "GOARCH", bk |-> {<<"amd64", "amd64">>, <<"riscv64", "riscv64">>}],
   [p |-> "example.com/e2e/alpha", c |-> "GoVersion", bk |-> {<<"go1.21.0", "go1.21">>, <<"go1.22.3", "go1.22">>}],
   [p |-> "example.com/e2e/alpha", c |-> "ok", bk |-> {<<"ok", "ok">>}],
   [p |-> "example.com/e2e/alpha", c |-> "ch", bk |-> {<<"a", "a">>, <<"b", "b">>}],
   [p |-> "example.com/e2e/beta", c |-> "Version", bk |-> {<<"v2.0.0", "v2.0.0">>}],
   [p |-> "example.com/e2e/beta", c |-> "GOOS", bk |-> {<<"linux", "linux">>, <<"plan9", "plan9">>}],
   [p |-> "example.com/e2e/beta", c |-> "GOARCH", bk |-> {<<"amd64", "amd64">>, <<"riscv64", "riscv64">>}],
   [p |-> "example.com/e2e/beta", c |-> "GoVersion", bk |-> {<<"go1.21.0", "go1.21">>, <<"go1.22.3", "go1.22">>}],
   [p |-> "example.com/e2e/beta", c |-> "ok", bk |-> {<<"ok", "ok">>}],
   [p |-> "example.com/e2e/beta", c |-> "ch", bk |-> {<<"a", "a">>}]}
MCInitModes == {Absent, Text("on", 19367, FALSE), Text("on", 19737, FALSE), Text("on", 19764, FALSE), Text("local", 19767, FALSE)}

====
