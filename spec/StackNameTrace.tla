--------------------------- MODULE StackNameTrace ---------------------------
(* code -> model: observations of the real stack-counter code.  One JSON     *)
(* object per line; strings are interned by the harness (own splitter at the *)
(* last dot), lines are [k, v, r] as in StackName!AbsLine.                   *)
(*  t = "stack": one distinct call stack that reached StackCounter.Inc       *)
(*      unc   the harness' uncompressed rendering of the captured PCs        *)
(*      enc   the name the real code gave the counter                        *)
(*      dec   what the real DecodeStack (and the file decoder) makes of it   *)
(*      marked / lenok / once (the same stack hit one counter every time,    *)
(*      and the counter's value is the number of increments) / fileok        *)
(*  t = "pair": two observed stacks                                          *)
(*      differ (their PCs differ), untrunc, samename, samerender, generic    *)
(*      (the chains differ only in the instantiation of generic functions)   *)
EXTENDS StackName, Json
Trace == ndJsonDeserialize("c15obs.ndjson")
VARIABLES l, bad
MaxPerClass == 40

ExplainedStack(r) ==
  /\ r.lenok
  /\ r.once
  /\ r.fileok                                        \* the file decoder lists the expanded name
  /\ ~r.marked => /\ LinesEq(LDec(r.enc), r.unc)     \* the name is a valid encoding of these frames
                  /\ LinesEq(r.dec, r.unc)           \* and the real expansion restores exactly them
ExplainedPair(r) == (r.differ /\ r.untrunc) => ~r.samename
Explained(r) == IF r.t = "stack" THEN ExplainedStack(r) ELSE ExplainedPair(r)

(* F13: the only thing wrong with the name is that frames WITHOUT an import  *)
(* path were abbreviated                                                     *)
FixEmpty(r) == [i \in 1..Len(r.enc) |->
                 IF i <= Len(r.unc) /\ r.enc[i].k = "ditto" /\ r.unc[i].k = "none" THEN r.unc[i] ELSE r.enc[i]]
Class(r) ==
  IF r.t = "pair" THEN (IF r.samerender /\ r.generic THEN 18 ELSE IF r.samerender THEN 19 ELSE 4)
  ELSE IF ~r.lenok THEN 1
  ELSE IF ~r.once THEN 5
  ELSE IF /\ ~r.marked
          /\ \E i \in 1..Len(r.enc) : i <= Len(r.unc) /\ r.enc[i].k = "ditto" /\ r.unc[i].k = "none"
          /\ LinesEq(LDec(FixEmpty(r)), r.unc) THEN 13
  ELSE IF ~r.marked /\ ~LinesEq(LDec(r.enc), r.unc) THEN 2      \* not an encoding of these frames
  ELSE IF ~r.marked /\ ~LinesEq(r.dec, r.unc) THEN 3            \* valid encoding, wrong expansion
  ELSE 6                                                        \* the file decoder's listing

Init == l = 1 /\ bad = {}
Next == \/ /\ l <= Len(Trace)
           /\ l' = l + 1
           /\ bad' = IF Explained(Trace[l]) THEN bad
                     ELSE LET c == Class(Trace[l]) IN
                          IF Cardinality({b \in bad : b[2] = c}) >= MaxPerClass THEN bad
                          ELSE bad \cup {<<l, c>>}
        \/ /\ l = Len(Trace) + 1            \* the verdict, read by checks/c15.py
           /\ PrintT(<<"C15BAD", Len(Trace), bad>>)
           /\ l' = l + 1 /\ UNCHANGED bad
=============================================================================
