SPECIFICATION Spec
INVARIANTS SpansOK Conservation
PROPERTIES RotateOpensToday IncOnlyInCurrent UploadAgrees
CHECK_DEADLOCK FALSE
CONSTANTS
  Anchors = {18255}
  Horizon = 9
  MaxInc = 2
  MaxUp = 2
