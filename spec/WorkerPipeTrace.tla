-------------------------- MODULE WorkerPipeTrace --------------------------
(* code -> model: every line is one request made to the real handlers, with  *)
(* the projected bucket state observed before and after and the answer       *)
(* class; TLC decides whether WorkerPipe!Apply explains it.                  *)
EXTENDS WorkerPipe, Json
Trace == ndJsonDeserialize("x04obs.ndjson")
VARIABLE l
TInit == l = 1 /\ st = Empty({}) /\ last = NoReq /\ n = 0
TNext == l <= Len(Trace) /\ l' = l + 1 /\ UNCHANGED vars
Rng(q) == {q[k] : k \in DOMAIN q}
ToSt(o) == [src |-> Rng(o.src), up |-> Rng(o.up), mg |-> Rng(o.mg), mgc |-> Rng(o.mgc),
            chp |-> Rng(o.chp), chc |-> Rng(o.chc)]
Explained(r) ==
    /\ r.extra = 0
    /\ Apply(ToSt(r.pre), r.rq) = <<ToSt(r.post), r.code>>
(* G5: a request over an upload bucket holding an undecodable object (variant 3; *)
(* what a merge should answer then is not documented): IF it is not answered    *)
(* 2xx it must have left every bucket as it was                                 *)
ExplainedG5(r) == r.code # "ok" => (ToSt(r.post) = ToSt(r.pre) /\ r.extra = 0)
AllExplainedG5 == l <= Len(Trace) => ExplainedG5(Trace[l])
AllExplained == l <= Len(Trace) => Explained(Trace[l])
Accepted == TLCGet("stats").diameter = Len(Trace) + 1
=============================================================================
