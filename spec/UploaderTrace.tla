---------------------------- MODULE UploaderTrace ----------------------------
(* code -> model for C07/C08: a recorded interleaving of real uploader runs   *)
(* (one line per file-system/HTTP call step or kill, with the telemetry       *)
(* directory and the server log after the step) must be a behaviour of        *)
(* Uploader.tla.                                                              *)
EXTENDS Uploader, Json

Trace == ndJsonDeserialize("c08trace.ndjson")
VARIABLE l
ToSet(s) == {s[i] : i \in DOMAIN s}

FileEq(m, o) == /\ m.st = o.st
                /\ m.st = "file" => /\ m.complete = o.complete
                                    /\ m.complete => (m.by = o.by /\ m.files = ToSet(o.files))
Norm(b) == IF b.complete THEN <<b.by, b.files>> ELSE <<"incomplete">>
NormO(b) == IF b.complete THEN <<b.by, ToSet(b.files)>> ELSE <<"incomplete">>
Matches(o) ==
  /\ count = ToSet(o.count)
  /\ \A w \in Weeks : /\ FileEq(ready[w], o.ready[ToString(w)])
                      /\ FileEq(localr[w], o.localr[ToString(w)])
                      /\ FileEq(uploaded[w], o.uploaded[ToString(w)])
                      /\ lock[w] = o.lock[ToString(w)]
  /\ {<<a.w, Norm(a.body)>> : a \in acks} = {<<o.acks[i].w, NormO(o.acks[i].body)>> : i \in DOMAIN o.acks}
  /\ {<<q.w, q.reply, q.by, q.n, q.after>> : q \in posts} =
     {<<o.posts[i].w, o.posts[i].reply, o.posts[i].by, o.posts[i].n, o.posts[i].after>> : i \in DOMAIN o.posts}

Conform == Settled => Matches(Trace[l - 1])
TInit == Init /\ l = 2
Reset == /\ Settled /\ l <= Len(Trace) /\ Trace[l].t = "init"
         /\ count' = Files \ LateFiles /\ arrived' = {}
         /\ ready' = [w \in Weeks |-> Absent] /\ localr' = [w \in Weeks |-> Absent] /\ uploaded' = [w \in Weeks |-> Absent]
         /\ lock' = [w \in Weeks |-> FALSE] /\ acks' = {} /\ posts' = {}
         /\ alive' = [u \in Uploaders |-> TRUE] /\ runs' = [u \in Uploaders |-> 0] /\ pc' = [u \in Uploaders |-> "Start"]
         /\ seenCount' = [u \in Uploaders |-> {}] /\ parseq' = [u \in Uploaders |-> <<>>] /\ collected' = [u \in Uploaders |-> {}]
         /\ seenReady' = [u \in Uploaders |-> {}] /\ seenUp' = [u \in Uploaders |-> {}]
         /\ weeks' = [u \in Uploaders |-> {}] /\ wk' = [u \in Uploaders |-> 0]
         /\ delq' = [u \in Uploaders |-> <<>>] /\ after' = [u \in Uploaders |-> "none"]
         /\ created' = [u \in Uploaders |-> <<>>] /\ readyq' = [u \in Uploaders |-> <<>>]
         /\ buf' = [u \in Uploaders |-> NoBody]
         /\ l' = l + 1
         /\ Conform'
Consume == /\ Settled /\ l <= Len(Trace) /\ Trace[l].t \in Uploaders
           /\ LET u == Trace[l].t IN alive[u] /\ Visible(u)
           /\ l' = l + 1
           /\ Conform'
Silent == /\ \E u \in Uploaders : Pending(u) /\ Internal(u)
          /\ l' = l
          /\ Conform'
Killed == /\ Settled /\ l <= Len(Trace) /\ Trace[l].t = "kill"
          /\ Kill(Trace[l].victim)
          /\ l' = l + 1
          /\ Conform'
Arrived == /\ Settled /\ l <= Len(Trace) /\ Trace[l].t = "arrive"
           /\ Arrive(Trace[l].file)
           /\ l' = l + 1
           /\ Conform'
Finished == /\ l = Len(Trace) + 1 /\ UNCHANGED <<vars, l>>
TNext == Reset \/ Consume \/ Silent \/ Killed \/ Arrived \/ Finished
TSpec == TInit /\ [][TNext]_<<vars, l>>
(* The model has real choices (the server's reply, the order in which weeks   *)
(* are processed): a successor that does not match the observation is simply  *)
(* not a successor, and the trace is accepted iff some path consumes it all   *)
(* (high-water mark of l, kept in a TLC register; needs -workers 1).          *)
HighWater == TLCSet(7, IF l > TLCGet(7) THEN l ELSE TLCGet(7))
ASSUME TLCSet(7, 0)
Accepted == IF TLCGet(7) = Len(Trace) + 1 THEN TRUE ELSE PrintT(<<"HIGHWATER", TLCGet(7)>>) /\ FALSE
=============================================================================
