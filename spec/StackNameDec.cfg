\* reference configuration for: tlc -config StackNameDec.cfg StackNameMC.tla (checks/c15.py generates the same text)
INIT InitDec
NEXT Next
INVARIANTS Identity DecodeShape AbsCommutes
CHECK_DEADLOCK FALSE
CONSTANTS
 MaxLen = 14
 StrLen = 6
 SeqLen = 3
 PairLen = 2
 Generic = FALSE
 Deeps = {5}
