---------------------------- MODULE WebContentVec ----------------------------
(* X01, model -> code: every (file system, request) pair of the small       *)
(* universe of WebContent.tla with the answer G1 demands; a redirect is     *)
(* followed (hop counts the redirects taken from the start request).        *)
(* TLC checks on the specification itself that redirect chains end after at *)
(* most two hops (RedirectsEnd), never at another redirect's source again   *)
(* (no loops, by the hop bound), and that the chain starting at the         *)
(* spelled-out name of an existing page file reaches a page (PagesReachable).*)
EXTENDS WebContent
VARIABLES fs, rq, out, hop, start
vars == <<fs, rq, out, hop, start>>

Reqs == {r \in Requests : r.segs = <<>> => r.slash}

Init == /\ fs \in FSs
        /\ rq \in Reqs
        /\ out = Resolve(fs, rq)
        /\ hop = 0
        /\ start = rq
Next == /\ out.k = "redirect"
        /\ rq' = [segs |-> out.to, slash |-> out.to = <<>>]
        /\ out' = Resolve(fs, rq')
        /\ hop' = hop + 1
        /\ UNCHANGED <<fs, start>>

RedirectsEnd == hop <= 2
TargetsInUniverse == out.k = "redirect" => [segs |-> out.to, slash |-> out.to = <<>>] \in Reqs
ServedFilesExist == out.k \in {"page", "static"} => IsFile(fs, out.file)
(* the URL that spells out an existing page file leads to a page (perhaps a  *)
(* shadowing one), never to 404 or a listing                                 *)
SpelledOut == ~start.slash /\ start.segs # <<>> /\ ExtOf[Last(start.segs)] \in {"md", "html"} /\ IsFile(fs, start.segs)
PagesReachable == (SpelledOut /\ out.k # "redirect") => out.k \in {"page", "any"}
(* the documented precedence: an existing p.md always wins at /p *)
MdWins == (rq.segs # <<>> /\ ~rq.slash /\ ExtOf[Last(rq.segs)] = "none" /\ Stem[Last(rq.segs)] # "index"
             /\ IsFile(fs, Sibling(rq.segs, "md"))) => (out.k = "page" /\ out.file = Sibling(rq.segs, "md"))
=============================================================================
