CONSTANTS ND = 2
          NI = 2
          MaxLen = 3
SPECIFICATION Spec
INVARIANT TypeOK
INVARIANT Provenance
INVARIANT Idempotent
PROPERTY Guarantees
CHECK_DEADLOCK FALSE
