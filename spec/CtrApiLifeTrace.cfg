\* trace validation: x03life.ndjson is written by checks/x03.py; a deadlock names the first unexplained line (variable l)
SPECIFICATION TSpec
CONSTANTS
 MaxLen = 100
 Modes = {"on"}
CHECK_DEADLOCK TRUE
