----------------------------- MODULE CtrApiLife -----------------------------
(***************************************************************************)
(* X03 (see the header of CtrApi.tla for the guarantees G1..G5): the       *)
(* life of ONE process that uses the public API                            *)
(*   counter.New / Inc / Add / NewStack / CountFlags /                     *)
(*   CountCommandLineFlags / Open / OpenAndRotate,                         *)
(*   countertest.Open / ReadCounter / ReadStackCounter / ReadFile,         *)
(*   and the close function returned by internal/counter.Open              *)
(* as a sequential state machine.  A behaviour is a HISTORY of API calls;  *)
(* after every call the state determines what the process must observe     *)
(* (variable obs): whether the call panicked, what ReadCounter returns for *)
(* the two long-lived Counter objects, what ReadStackCounter returns,      *)
(* whether a counter file exists and what an independent reader finds in   *)
(* it.  TLC enumerates all histories up to a length bound (each is         *)
(* replayed in a fresh child process through the real API) and checks the  *)
(* history-quantified statements of G3, G4, G5 as invariants.              *)
(*                                                                         *)
(* Counter names: "a", "b" plain; "s1", "s2" the counters of one stack     *)
(* counter (depth 1, two call sites); "fx", "fy" the flag counters         *)
(* prefix+"x", prefix+"y" of CountFlags; "cx", "cy" those of               *)
(* CountCommandLineFlags.  Objects: one long-lived Counter per plain name  *)
(* (gmem = its pending amount), throw-away Counters made by                *)
(* counter.Inc(name) / counter.Add(name, n) / CountFlags (amem = the sum   *)
(* pending in them, per name), the stack counter's Counters (smem).        *)
(***************************************************************************)
EXTENDS Integers, Sequences, FiniteSets, TLC

CONSTANTS MaxLen,      \* bound on the length of a history
          Modes        \* telemetry modes to start in: subset of {"on", "local", "off", "none"} (none = no mode file)

PN == {"a", "b"}
SN == {"s1", "s2"}
FN == {"fx", "fy"}
CN == {"cx", "cy"}
NM == PN \cup SN \cup FN \cup CN
Flags == {"x", "y"}
FlagName(f) == IF f = "x" THEN "fx" ELSE "fy"
CmdName(f) == IF f = "x" THEN "cx" ELSE "cy"
Zero == [n \in NM |-> 0]
Range(s) == {s[i] : i \in DOMAIN s}

VARIABLES mode,      \* the telemetry mode (fixed during the life of the process)
          opened,    \* "no" | "open" (a counter file is mapped) | "off" (Open was a no-op: mode off)
          okind,     \* "none" | "plain" | "rotate": which of Open / OpenAndRotate came first
          ofam,      \* "none" | "api" | "test": counter.Open* or countertest.Open (must not be mixed)
          topen,     \* countertest.Open was called
          hasClose,  \* the first open was internal/counter.Open(false) whose close function we hold
          dead,      \* the close function unmapped the file: the process makes no further calls
          gmem, amem, smem,   \* pending in-memory amounts, per name, by object class
          sstacks,   \* the stack counter's list (names in creation order)
          disk,      \* what the counter file holds
          cmdset,    \* flags of flag.CommandLine that have been set
          incs,      \* history: total amount added per name
          hist,      \* history: the calls made
          obs        \* what the process must observe after the last call
state == <<mode, opened, okind, ofam, topen, hasClose, dead, gmem, amem, smem, sstacks, disk, cmdset, incs>>
vars == <<state, hist, obs>>

Op(o, n, d, fl, kind) == [op |-> o, n |-> n, d |-> d, fl |-> fl, kind |-> kind]
AllOps ==
  {Op("incg", n, 1, {}, "") : n \in PN} \cup {Op("addg", "a", d, {}, "") : d \in {0, 3, -1}}
  \cup {Op("inca", n, 1, {}, "") : n \in PN} \cup {Op("adda", "b", d, {}, "") : d \in {0, 2, -1}}
  \cup {Op("incs", n, 1, {}, "") : n \in SN}
  \cup {Op("flags", "", 0, fl, "") : fl \in SUBSET Flags}
  \cup {Op("setcmd", f, 0, {}, "") : f \in Flags} \cup {Op("cmdflags", "", 0, {}, "")}
  \cup {Op("open", "", 0, {}, kd) : kd \in {"open", "openrot", "opentest", "openint"}}
  \cup {Op("close", "", 0, {}, "")}

(* ---- what must be observed in a state (G3, G4) ---- *)
(* ReadCounter of a long-lived Counter: the file's value under its name when a file is open,  *)
(* its own pending amount otherwise; an error is permitted only when the name has no record    *)
ObsOf(pan, op, dd, gm, sm, ss, dk) ==
  LET isopen == op = "open"
      rd(n) == IF isopen THEN dk[n] ELSE gm[n]
      rs(n) == IF n \in Range(ss) THEN (IF isopen THEN dk[n] ELSE sm[n]) ELSE -1
  IN [pan |-> pan, dead |-> dd,
      ga |-> rd("a"), gb |-> rd("b"),
      gaerr |-> IF isopen /\ dk["a"] = 0 THEN "any" ELSE "none",
      gberr |-> IF isopen /\ dk["b"] = 0 THEN "any" ELSE "none",
      s1 |-> rs("s1"), s2 |-> rs("s2"),
      file |-> isopen,                               \* a count file exists iff Open succeeded
      d |-> IF isopen THEN dk ELSE Zero,
      recs |-> IF isopen THEN {n \in NM : dk[n] > 0} ELSE {}]   \* names that have a record: exactly those something was added to

Init ==
  /\ mode \in Modes
  /\ opened = "no" /\ okind = "none" /\ ofam = "none" /\ topen = FALSE /\ hasClose = FALSE /\ dead = FALSE
  /\ gmem = Zero /\ amem = Zero /\ smem = Zero /\ sstacks = <<>> /\ disk = Zero /\ cmdset = {}
  /\ incs = Zero /\ hist = <<>>
  /\ obs = ObsOf(FALSE, "no", FALSE, Zero, Zero, <<>>, Zero)

Plus(f, g) == [n \in NM |-> f[n] + g[n]]
One(n, d) == [m \in NM |-> IF m = n THEN d ELSE 0]
Many(S) == [m \in NM |-> IF m \in S THEN 1 ELSE 0]

(* an amount arrives for some names through objects of one class *)
Bump(cls, delta) ==
  /\ incs' = Plus(incs, delta)
  /\ IF opened = "open"
     THEN /\ disk' = Plus(disk, delta) /\ UNCHANGED <<gmem, amem, smem>>
     ELSE /\ UNCHANGED disk
          /\ gmem' = IF cls = "g" THEN Plus(gmem, delta) ELSE gmem
          /\ amem' = IF cls = "a" THEN Plus(amem, delta) ELSE amem
          /\ smem' = IF cls = "s" THEN Plus(smem, delta) ELSE smem

RotOf(kind) == IF kind = "openrot" THEN "rotate" ELSE "plain"
FamOf(kind) == IF kind = "opentest" THEN "test" ELSE "api"

(* the effect of one call; pan' tells whether it must panic *)
Do(o, pan) ==
  CASE o.op \in {"incg", "addg"} ->
         IF o.d < 0 THEN pan /\ UNCHANGED state                       \* "n cannot be negative": panics, changes nothing
         ELSE ~pan /\ Bump("g", One(o.n, o.d)) /\ UNCHANGED <<mode, opened, okind, ofam, topen, hasClose, dead, sstacks, cmdset>>
    [] o.op \in {"inca", "adda"} ->
         IF o.d < 0 THEN pan /\ UNCHANGED state
         ELSE ~pan /\ Bump("a", One(o.n, o.d)) /\ UNCHANGED <<mode, opened, okind, ofam, topen, hasClose, dead, sstacks, cmdset>>
    [] o.op = "incs" ->
         /\ ~pan /\ Bump("s", One(o.n, 1))
         /\ sstacks' = IF o.n \in Range(sstacks) THEN sstacks ELSE Append(sstacks, o.n)     \* G1
         /\ UNCHANGED <<mode, opened, okind, ofam, topen, hasClose, dead, cmdset>>
    [] o.op = "flags" ->                                                \* G5: one increment per flag that is set
         /\ ~pan /\ Bump("a", Many({FlagName(f) : f \in o.fl}))
         /\ UNCHANGED <<mode, opened, okind, ofam, topen, hasClose, dead, sstacks, cmdset>>
    [] o.op = "setcmd" ->
         /\ ~pan /\ cmdset' = cmdset \cup {o.n}
         /\ UNCHANGED <<mode, opened, okind, ofam, topen, hasClose, dead, gmem, amem, smem, sstacks, disk, incs>>
    [] o.op = "cmdflags" ->
         /\ ~pan /\ Bump("a", Many({CmdName(f) : f \in cmdset}))
         /\ UNCHANGED <<mode, opened, okind, ofam, topen, hasClose, dead, sstacks, cmdset>>
    [] o.op = "open" ->
         IF o.kind = "opentest" /\ topen
         THEN pan /\ UNCHANGED state                                    \* countertest.Open "called more than once"
         ELSE IF okind = "none"
         THEN /\ ~pan
              /\ okind' = RotOf(o.kind) /\ ofam' = FamOf(o.kind)
              /\ topen' = (o.kind = "opentest") /\ hasClose' = (o.kind = "openint")
              /\ IF mode = "off"
                 THEN /\ opened' = "off"                                \* "If the telemetry mode is off, Open is a no-op"
                      /\ UNCHANGED <<gmem, amem, smem, disk>>
                 ELSE /\ opened' = "open"                               \* "Open also persists any counters already created"
                      /\ disk' = Plus(Plus(disk, gmem), Plus(amem, smem))
                      /\ gmem' = Zero /\ amem' = Zero /\ smem' = Zero
              /\ UNCHANGED <<mode, dead, sstacks, cmdset, incs>>
         ELSE IF RotOf(o.kind) # okind
         THEN pan /\ UNCHANGED state                                    \* Open and OpenAndRotate in one process
         ELSE /\ ~pan /\ topen' = (topen \/ o.kind = "opentest")        \* idempotent
              /\ UNCHANGED <<mode, opened, okind, ofam, hasClose, dead, gmem, amem, smem, sstacks, disk, cmdset, incs>>
    [] o.op = "close" ->
         /\ ~pan /\ dead' = (opened = "open")
         /\ UNCHANGED <<mode, opened, okind, ofam, topen, hasClose, gmem, amem, smem, sstacks, disk, cmdset, incs>>

Allowed(o) ==
  /\ ~dead
  /\ o.op = "close" => hasClose
  /\ o.op = "open" => (ofam = "none" \/ ofam = FamOf(o.kind))     \* countertest.Open "must not be used with counter.Open"

Call(o) ==
  /\ Len(hist) < MaxLen /\ Allowed(o)
  /\ \E pan \in BOOLEAN :
       /\ Do(o, pan)
       /\ hist' = Append(hist, o)
       /\ obs' = ObsOf(pan, opened', dead', gmem', smem', sstacks', disk')
Next == \E o \in AllOps : Call(o)
Spec == Init /\ [][Next]_vars

(* ------------------------------------------------------------ properties *)
Total(n) == disk[n] + gmem[n] + amem[n] + smem[n]
(* G4: every amount is in exactly one place; after a successful Open that place is the file *)
Conservation == \A n \in NM : Total(n) = incs[n]
FlushedWhenOpen == opened = "open" => (gmem = Zero /\ amem = Zero /\ smem = Zero /\ disk = incs)
NothingBeforeOpen == opened # "open" => disk = Zero /\ ~obs.file
OffWritesNothing == mode = "off" => opened # "open" /\ disk = Zero
OpenWorksUnlessOff == (mode # "off" /\ opened # "no") => opened = "open"
(* G3: at rest with the file open ReadCounter of a Counter is everything ever added under its name,  *)
(* by any object; without a file it never exceeds that                                              *)
ReadSpec == /\ opened = "open" => (obs.ga = incs["a"] /\ obs.gb = incs["b"])
            /\ obs.ga <= incs["a"] /\ obs.gb <= incs["b"]
            /\ \A n \in SN : LET v == IF n = "s1" THEN obs.s1 ELSE obs.s2 IN
                 IF incs[n] = 0 THEN v = -1 ELSE v = incs[n]
(* G1 in the sequential setting *)
StacksExact == Range(sstacks) = {n \in SN : incs[n] > 0} /\ Len(sstacks) = Cardinality(Range(sstacks))
(* G5, quantified over the history: the flag counters count exactly the calls at which the flag was set *)
CmdSetAt(i) == {hist[j].n : j \in {j \in 1..(i - 1) : hist[j].op = "setcmd"}}
CountFlagsEffect ==
  \A f \in Flags :
    /\ incs[FlagName(f)] = Cardinality({i \in 1..Len(hist) : hist[i].op = "flags" /\ f \in hist[i].fl})
    /\ incs[CmdName(f)] = Cardinality({i \in 1..Len(hist) : hist[i].op = "cmdflags" /\ f \in CmdSetAt(i)})
(* a panic is only ever demanded for the three documented misuses *)
PanicOnlyMisuse == obs.pan => LET o == hist[Len(hist)] IN
                     \/ o.op \in {"addg", "adda"} /\ o.d < 0
                     \/ o.op = "open"

View == <<state, Len(hist), obs>>
=============================================================================
