---- MODULE StorageWMC ----
(* constants of the writer-lifetime runs (the name sets of StorageMC) *)
EXTENDS StorageW
A == <<"a">>
B == <<"b">>
AB == <<"a", "b">>
TinyNames == {<<A>>, <<B, A>>, <<A, B>>}
SmallNames == {<<A>>, <<AB>>, <<B, A>>, <<B, AB>>, <<A, B>>, <<B, B, A>>}
AllPrefixes(N) == UNION {{SubSeq(NameStr(n), 1, k) : k \in 0..Len(NameStr(n))} : n \in N}
TwoNames == {<<A>>, <<B, A>>}
TwoPrefixes == {<<>>, <<"a">>, <<"b", "/">>}
TinyPrefixes == AllPrefixes(TinyNames) \cup {<<"c">>}
SmallPrefixes == AllPrefixes(SmallNames) \cup {<<"c">>, <<"b", "/", "c">>}
====
