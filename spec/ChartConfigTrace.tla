-------------------------- MODULE ChartConfigTrace --------------------------
(* code -> model for C17.  One JSON object per line, written by the driver   *)
(* from observations of the real code:                                       *)
(*   parse  a random text, abstracted line by line by the driver's lexer,    *)
(*          with what the real Parse returned (records or an error)          *)
(*   gen    a list of validated chart records (abstracted to program /       *)
(*          counter token / depth / minimum-version rank), the known version *)
(*          ranks, and the generated upload configuration (abstracted)       *)
(*   pad    a version list and its padded list, as ranks in semver order     *)
(* TLC decides for every record whether the specification explains it; `bad` *)
(* collects the line numbers of those it does not.                           *)
EXTENDS ChartConfig, Json, TLC

Trace == ndJsonDeserialize("c17obs.ndjson")
Occ(s, x) == Cardinality({k \in 1..Len(s) : s[k] = x})

(* a text that is a rendering of records must give exactly those records;    *)
(* for any other text the property only demands termination without panic,   *)
(* which the harness has already observed when the record exists             *)
ParseExplained(r) ==
    LET m == ParseLines(r.lines) IN
    m.ok => (r.ok /\ r.recs = m.recs)

GenExplained(r) ==
    \A p \in 1..Len(r.out) :
        IF p \in ProgsOf(r.recs)
        THEN /\ r.out[p].present
             /\ Required(r.recs, p, Rng(r.known[p])) \subseteq Rng(r.out[p].versions)
             /\ \A c \in 1..r.nctr :
                   /\ Occ(r.out[p].counters, c) = NCounter(r.recs, p, c)
                   /\ \A d \in Rng(r.depths) : Occ(r.out[p].stacks, <<c, d>>) = NStack(r.recs, p, c, d)
             /\ Len(r.out[p].stacks) = Cardinality({i \in 1..Len(r.recs) : r.recs[i].prog = p /\ r.recs[i].depth > 0})
        ELSE ~r.out[p].present

PadExplained(r) == PadOK(r.src, r.dst)

Explained(r) == CASE r.kind = "parse" -> ParseExplained(r)
                  [] r.kind = "gen" -> GenExplained(r)
                  [] r.kind = "pad" -> PadExplained(r)
                  [] OTHER -> FALSE

VARIABLES l, bad
Init == l = 1 /\ bad = <<>>
Next == /\ l <= Len(Trace)
        /\ bad' = IF Explained(Trace[l]) THEN bad ELSE Append(bad, l)
        /\ l' = l + 1
AllExplained == (l = Len(Trace) + 1) => bad = <<>>
Accepted == TLCGet("stats").diameter = Len(Trace) + 1
=============================================================================
