----------------------------- MODULE CtrApiObs -----------------------------
(* X03: the clauses of the guarantees G1, G2, G3 evaluated by TLC on every    *)
(* state OBSERVED in an execution of the real code.  No action of CtrApi.tla  *)
(* constrains these states: whatever the code did is judged by the guarantee  *)
(* alone.  One JSON line per observation:                                     *)
(*   kind "step"  -- projection after one scheduling step (or the final one,  *)
(*                   final = TRUE, with the reads made at rest)               *)
(*   kind "free"  -- final state of a free-running (really parallel) run      *)
(*   kind "fread" -- one Read made while a free-running run was in progress:  *)
(*                   v, and hi = the Incs begun from that stack at its return *)
(*   kind "fsnap" -- one Names()/Counters() result of a free-running run:     *)
(*                   ids, lo (stacks whose first Inc had returned before the  *)
(*                   call), hi (stacks an Inc had begun from at its return),  *)
(*                   fin (the final list)                                     *)
(* Counter ids: 1..ns are the stack counter's counters (CtrApi!Key of the     *)
(* observed program counters; -2 = not a stack of this run), ns+1..nc plain.  *)
EXTENDS Integers, Sequences, FiniteSets, Json, TLC

Trace == ndJsonDeserialize("x03obs.ndjson")
VARIABLE l
Init == l = 1
Next == l < Len(Trace) /\ l' = l + 1
Spec == Init /\ [][Next]_l

ToSet(s) == {s[i] : i \in DOMAIN s}
IsPrefix(a, b) == Len(a) <= Len(b) /\ \A i \in 1..Len(a) : a[i] = b[i]
NoDupSeq(s) == \A i, j \in 1..Len(s) : i # j => s[i] # s[j]
IsState(x) == x.kind \in {"step", "free"}
P(x, c) == x.disk[1][c] + x.disk[2][c]

(* ---- G1 ---- *)
NoDupAt(x) == IsState(x) => NoDupSeq(x.stacks)
KnownStacksAt(x) == IsState(x) => \A i \in 1..Len(x.stacks) : x.stacks[i] \in 1..x.ns /\ x.begun[x.stacks[i]] > 0
DoneKnownAt(x) == IsState(x) => \A c \in 1..x.ns : x.done[c] > 0 => c \in ToSet(x.stacks)
AppendOnlyAt(i) == (i > 1 /\ Trace[i].kind = "step" /\ Trace[i - 1].kind = "step" /\ Trace[i].run = Trace[i - 1].run)
                     => IsPrefix(Trace[i - 1].stacks, Trace[i].stacks)
SnapAt(x) == x.kind = "step" => \A o \in 1..Len(x.snap) : IsPrefix(x.snap[o], x.stacks)
NamesAgreeAt(x) == (IsState(x) /\ x.reads) => x.namesAgree
FreeSnapAt(x) == x.kind = "fsnap" => /\ NoDupSeq(x.ids)
                                     /\ ToSet(x.lo) \subseteq ToSet(x.ids)
                                     /\ ToSet(x.ids) \subseteq ToSet(x.hi)
                                     /\ IsPrefix(x.ids, x.fin)
(* a read made while increments are in flight never reports more than has been begun (G3) *)
FreeReadAt(x) == x.kind = "fread" => x.v <= x.hi
(* ---- G2 ---- *)
BoundsAt(x) == IsState(x) => \A c \in 1..x.nc : x.done[c] <= P(x, c) + x.mem[c] /\ P(x, c) + x.mem[c] <= x.begun[c]
QuiescentAt(x) == (IsState(x) /\ x.final) => \A c \in 1..x.nc : /\ P(x, c) + x.mem[c] = x.begun[c]
                                                               /\ (x.cur # 0 => x.mem[c] = 0)
                                                               /\ (x.cur = 0 => P(x, c) = 0)
(* the registration list: every counter on which an increment has completed is reachable from the head *)
(* (it is how Open and every rotation find the counters)                                              *)
RECURSIVE ReachFrom(_, _, _)
ReachFrom(x, c, n) == IF c < 1 \/ c > x.nc \/ n = 0 THEN {} ELSE {c} \cup ReachFrom(x, x.nxt[c], n - 1)
ListedAt(x) == x.kind = "step" => \A c \in 1..x.nc : x.done[c] > 0 => c \in ReachFrom(x, x.head, x.nc + 1)
NoAlienAt(x) == IsState(x) => x.alien = 0 /\ x.malformed = 0
PtrLiveAt(x) == x.kind = "step" => \A c \in 1..x.nc : x.hp[c] # -2 /\ (x.hp[c] >= 1 => x.hp[c] \notin ToSet(x.closed))
MonotoneAt(i) == (i > 1 /\ Trace[i].kind = "step" /\ Trace[i - 1].kind = "step" /\ Trace[i].run = Trace[i - 1].run)
                   => \A c \in 1..Trace[i].nc : \A f \in 1..2 : Trace[i].disk[f][c] >= Trace[i - 1].disk[f][c]
(* ---- G3 (reads at rest) ---- *)
ReadAt(x) == (IsState(x) /\ x.reads) =>
  \A c \in 1..x.nc : x.rd[c] # -1 =>
     IF x.cur = 0 THEN x.rd[c] = x.mem[c] /\ x.rderr[c] = ""
     ELSE /\ x.disk[x.cur][c] > 0 => (x.rd[c] = x.disk[x.cur][c] /\ x.rderr[c] = "")
          /\ x.disk[x.cur][c] = 0 => x.rd[c] = 0
ReadStackAt(x) == (IsState(x) /\ x.reads) =>
  IF x.rserr # ""
  THEN x.cur # 0 /\ \E i \in 1..Len(x.stacks) : x.stacks[i] \in 1..x.ns /\ x.disk[x.cur][x.stacks[i]] = 0
  ELSE /\ x.rsalien = 0
       /\ \A c \in 1..x.ns : IF c \in ToSet(x.stacks)
                             THEN x.rs[c] = (IF x.cur = 0 THEN x.mem[c] ELSE x.disk[x.cur][c])
                             ELSE x.rs[c] = -1
ReadNoEffectAt(x) == (IsState(x) /\ x.reads) => x.diskAfterRead = x.disk /\ x.memAfterRead = x.mem

Clauses == <<"NoDup", "KnownStacks", "DoneKnown", "AppendOnly", "Snap", "NamesAgree", "FreeSnap", "Bounds", "Quiescent",
             "NoAlien", "PtrLive", "Monotone", "Read", "ReadStack", "ReadNoEffect", "FreeRead", "Listed">>
Holds(i, cl) == LET x == Trace[i] IN
  CASE cl = "NoDup" -> NoDupAt(x) [] cl = "KnownStacks" -> KnownStacksAt(x) [] cl = "DoneKnown" -> DoneKnownAt(x)
    [] cl = "AppendOnly" -> AppendOnlyAt(i) [] cl = "Snap" -> SnapAt(x) [] cl = "NamesAgree" -> NamesAgreeAt(x)
    [] cl = "FreeSnap" -> FreeSnapAt(x) [] cl = "Bounds" -> BoundsAt(x) [] cl = "Quiescent" -> QuiescentAt(x)
    [] cl = "NoAlien" -> NoAlienAt(x) [] cl = "PtrLive" -> PtrLiveAt(x) [] cl = "Monotone" -> MonotoneAt(i)
    [] cl = "Read" -> ReadAt(x) [] cl = "ReadStack" -> ReadStackAt(x) [] cl = "ReadNoEffect" -> ReadNoEffectAt(x)
    [] cl = "FreeRead" -> FreeReadAt(x) [] cl = "Listed" -> ListedAt(x)

(* all failing (line, clause) pairs at once, printed for the driver *)
Bad == {p \in (1..Len(Trace)) \X ToSet(Clauses) : ~Holds(p[1], p[2])}
ASSUME PrintT(<<"X03BAD", Bad>>)
=============================================================================
