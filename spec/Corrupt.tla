------------------------------ MODULE Corrupt ------------------------------
(* Property C05, second half: a counter file that is corrupt AT REST (before  *)
(* it is opened).  The module describes the damage classes of a v1 counter    *)
(* file (vocabulary of FileFormat.tla: header, allocation limit, bucket       *)
(* heads, record name length, record links, truncation) and, for the three    *)
(* operations "open the file, then Add to an existing name / to a new name in *)
(* an empty bucket / to a new name in an occupied bucket", the class of       *)
(* behaviour the documentation demands:                                       *)
(*                                                                            *)
(*   - the header (prefix, header length, metadata) must match exactly, else  *)
(*     the file is not used: the counter file is PARKED (error state, no      *)
(*     mapping) and the file on disk is left untouched;                       *)
(*   - a file shorter than one page is treated as not yet initialised;        *)
(*   - every offset read from the file is bounds-checked: an Add whose hash   *)
(*     chain meets an invalid element (offset in the header / beyond the      *)
(*     file, a record without a name or whose name runs past the file) keeps  *)
(*     its amount IN MEMORY; an Add that finds its record PERSISTS into it;   *)
(*     an Add that reaches the end of its chain allocates a record at the     *)
(*     allocation limit, which must lie above the hash table;                 *)
(*   - whatever the damage: the call returns (no panic, no fault, bounded     *)
(*     steps) and no OTHER counter that could be read before changes its      *)
(*     value or disappears.                                                   *)
(*                                                                            *)
(* Reading a whole file (counter.Read, the uploader's parse of every count      *)
(* file in local/) must also return on every damage, and the uploader may only  *)
(* leave a damaged file byte-identical or fold it into a report of its week.    *)
(* A record's VALUE (zero or not) never matters for any of this: a zero-valued  *)
(* record is a record like any other (dimension vals).                          *)
(*                                                                            *)
(* The abstract file has three records: C and E share a bucket (chain          *)
(* head -> C -> E), V lives alone in another bucket (on the second page).      *)
(* Written from the layout documentation and the property text, not from the   *)
(* code; "any" marks the cases about which the documentation is silent.        *)
EXTENDS Integers, Sequences, FiniteSets, TLC

HdrClasses   == {"ok", "len0", "lensmall", "lenplus", "lenpage", "lenhuge", "prefix", "meta"}
TruncClasses == {"none", "zero", "pageminus1", "onepage", "pageplus"}   \* pageplus: one page and 100 bytes (not a multiple of the page size)
LimitClasses == {"ok", "zero", "hdr", "table", "low", "unaligned", "beyondfile", "near32", "wrappage"}
(* near32: rounding the limit up to the record unit wraps around 2^32; wrappage: the record still fits *)
(* below 2^32 but rounding its end up to the page size wraps (the file would have to grow past 4 GiB) *)
HeadEClasses == {"ok", "zero", "hdr", "table", "unaligned", "gelimit", "gefile"}
HeadNClasses == {"zero", "valid", "hdr", "table", "unaligned", "gelimit", "gefile"}
NlenClasses  == {"ok", "zero", "pastpage", "pastend", "pastfile"}   \* pastend: the name ends 8 bytes beyond the file
NextCClasses == {"ok", "zero", "self", "other", "range", "ffff"}
NextEClasses == {"ok", "other", "self", "cycle2", "range", "ffff"}
ValClasses   == {"nz", "zero", "max"}          \* the values of records C and E (max = 2^64-1: a counter cannot grow any more)
AddOps       == {"addE", "addN", "addM"}
ParseOps     == {"read", "upload"}             \* counter.Read of E / upload.Run over the directory: both read the whole file
Ops          == AddOps \cup ParseOps

Undamaged == [hdr |-> "ok", trunc |-> "none", limit |-> "ok", headE |-> "ok", headN |-> "zero",
              nlenC |-> "ok", nextC |-> "ok", nextE |-> "ok", vals |-> "nz"]
Dims == DOMAIN Undamaged
Damage(f) == Cardinality({d \in Dims : f[d] # Undamaged[d]})

(* ---- abstract chain walk --------------------------------------------------*)
(* nodes: the three records, "nil" (offset 0: end of chain), "bad" (an offset  *)
(* that is not a record position inside the file)                              *)
(* V lives on the second page: after a truncation to one page its offset lies  *)
(* beyond the file                                                              *)
VNode(f) == IF f.trunc \in {"onepage", "pageplus"} THEN "bad" ELSE "V"
HeadOf(f, bucket) ==
    IF bucket = "bE" THEN (IF f.headE = "ok" THEN "C" ELSE IF f.headE = "zero" THEN "nil" ELSE "bad")
    ELSE (IF f.headN = "zero" THEN "nil" ELSE IF f.headN = "valid" THEN VNode(f) ELSE "bad")
NextOf(f, node) ==
    CASE node = "C" -> (CASE f.nextC = "ok" -> "E" [] f.nextC = "zero" -> "nil" [] f.nextC = "self" -> "C"
                          [] f.nextC = "other" -> VNode(f) [] OTHER -> "bad")
      [] node = "E" -> (CASE f.nextE = "ok" -> "nil" [] f.nextE = "other" -> VNode(f) [] f.nextE = "self" -> "E"
                          [] f.nextE = "cycle2" -> "C" [] OTHER -> "bad")
      [] node = "V" -> "nil"
(* a record whose name length is 0 or runs past the file is not a record *)
Readable(f, node) == node # "C" \/ f.nlenC \in {"ok", "pastpage"}
(* the documentation caps names at 4096 bytes; a longer name inside the file   *)
(* is neither clearly valid nor clearly invalid                                 *)
Odd(f, node) == node = "C" /\ f.nlenC = "pastpage"

RECURSIVE Walk(_, _, _, _, _)
(* result of looking `target` up from `node`: <<outcome, odd>> with outcome in  *)
(* found / absent / invalid / cycle                                             *)
Walk(f, node, target, fuel, odd) ==
    IF node = "nil" THEN <<"absent", odd>>
    ELSE IF node = "bad" \/ ~Readable(f, node) THEN <<"invalid", odd>>
    ELSE IF node = target /\ ~Odd(f, node) THEN <<"found", odd>>
    ELSE IF fuel = 0 THEN <<"cycle", odd>>
    ELSE Walk(f, NextOf(f, node), target, fuel - 1, odd \/ Odd(f, node))

BucketOfOp(op) == IF op = "addN" THEN "bN" ELSE "bE"
TargetOfOp(op) == IF op \in {"addE", "read"} THEN "E" ELSE "none"
Lookup(f, op)  == Walk(f, HeadOf(f, BucketOfOp(op)), TargetOfOp(op), 4, FALSE)

(* ---- expected class ---------------------------------------------------------*)
HeaderMatches(f) == f.hdr = "ok"
TooShort(f)      == f.trunc \in {"zero", "pageminus1"}
ExpectOpen(f)    == IF TooShort(f) \/ HeaderMatches(f) THEN "opens" ELSE "parks"

(* where a new record would go *)
AllocClass(f) == CASE f.limit = "ok" /\ f.trunc = "none" -> "persist"
                   [] f.limit \in {"hdr", "table"} -> "memory"     \* the limit must lie above the hash table
                   [] OTHER -> "any"                                \* 0 with records present, below a record, unaligned, beyond the file
ExpectMode(f, op) ==
    IF op \in ParseOps THEN "any"                \* nothing is added
    ELSE IF ExpectOpen(f) = "parks" THEN "memory"
    ELSE IF TooShort(f) THEN "any"               \* the file is set up again; what it still holds is not specified
    ELSE LET r == Lookup(f, op) IN
         CASE r[1] = "invalid" -> "memory"
           [] r[1] = "cycle"   -> "any"           \* must return; nothing more is promised
           [] r[2]             -> "any"
           [] r[1] = "found"   -> IF f.vals = "max" THEN "any" ELSE "persist"    \* a counter at its maximum stays there
           [] OTHER            -> AllocClass(f)
(* a parked file is not written to at all; reading a counter back writes nothing *)
ExpectUntouched(f, op) == ExpectOpen(f) = "parks" \/ (op = "read" /\ ~TooShort(f))

Expected(f, op) == [open |-> ExpectOpen(f), mode |-> ExpectMode(f, op), untouched |-> ExpectUntouched(f, op)]

(* ---- the observed outcome of a real run and its verdict --------------------- *)
(* o = [open, ret, mode, others, untouched, dbl, dec]; mode: persist (the amount is   *)
(* in the file), memory (it is pending in memory), dropped (neither), other.     *)
(* The property lets a failure keep counts in memory or drop them, so "dropped"  *)
(* is accepted where "memory" is expected.                                       *)
ModeAccepts(want, got) == \/ want = "any"
                          \/ want = got
                          \/ (want = "memory" /\ got = "dropped")
(* what the property forbids whatever the damage: "ok" or the broken clause *)
Safety(o) ==
    IF o.ret # "ok" THEN o.ret                               \* panic / memfault / hang / blocked
    ELSE IF o.others THEN "other-counter-changed"
    ELSE IF o.dbl THEN "double-unmap"
    ELSE IF o.dec THEN "counter-decreased"                   \* the readable value of the counter itself went down
    ELSE "ok"
(* the documented class: "ok" or the clause in which model and code differ *)
ClassCheck(f, op, o) ==
    LET e == Expected(f, op) IN
    IF o.ret # "ok" \/ op = "upload" THEN "ok"     \* the uploader does not open the file for counting
    ELSE IF o.open # e.open THEN "open-class"
    ELSE IF e.untouched /\ ~o.untouched THEN "parked-file-written"
    ELSE IF ~ModeAccepts(e.mode, o.mode) THEN "mode-class"
    ELSE "ok"
Verdict(f, op, o) == IF Safety(o) # "ok" THEN Safety(o) ELSE ClassCheck(f, op, o)

(* ---- enumeration ------------------------------------------------------------- *)
CONSTANTS MaxDamage,      \* number of damaged dimensions of family B
          MaxDamageParse  \* ... of the files that are also read as a whole (ParseOps)
VARIABLES file, op, exp
vars == <<file, op, exp>>

(* family A: header x truncation x limit (everything else undamaged)             *)
FamilyA == {[Undamaged EXCEPT !.hdr = h, !.trunc = t, !.limit = l] : h \in HdrClasses, t \in TruncClasses, l \in LimitClasses}
(* family B: intact header, no truncation; limit x heads x name length x links   *)
FamilyB == {f \in [hdr : {"ok"}, trunc : {"none"}, limit : LimitClasses, headE : HeadEClasses, headN : HeadNClasses,
                   nlenC : NlenClasses, nextC : NextCClasses, nextE : NextEClasses, vals : ValClasses] :
                    Damage(f) <= (IF f.vals # "nz" /\ MaxDamage > 3 THEN 3 ELSE MaxDamage)}

Init == /\ file \in FamilyA \cup FamilyB
        /\ op \in AddOps \cup (IF Damage(file) <= MaxDamageParse THEN ParseOps ELSE {})
        /\ exp = Expected(file, op)
Next == UNCHANGED vars
Spec == Init /\ [][Next]_vars

(* ---- sanity theorems about the operators (checked by TLC on every vector) ---- *)
TypeOK == /\ exp.open \in {"opens", "parks"}
          /\ exp.mode \in {"persist", "memory", "any"}
UndamagedPersists == (Damage(file) = 0 /\ op \in AddOps) => exp = [open |-> "opens", mode |-> "persist", untouched |-> FALSE]
(* zero-valued records are records like any other *)
ValuesIrrelevant  == /\ Lookup(file, op) = Lookup([file EXCEPT !.vals = "nz"], op)
                     /\ file.vals = "zero" => exp = Expected([file EXCEPT !.vals = "nz"], op)
                     /\ (file.vals = "max" /\ op # "addE") => exp = Expected([file EXCEPT !.vals = "nz"], op)
ParkedMeansMemory == exp.open = "parks" => (op \in AddOps => exp.mode = "memory") /\ exp.untouched
(* an amount is kept in memory only because of some damage, and a cycle is only  *)
(* possible where a link was damaged                                             *)
MemoryHasCause == exp.mode = "memory" => Damage(file) > 0
CycleHasCause  == (~TooShort(file) /\ Lookup(file, op)[1] = "cycle") => (file.nextC = "self" \/ file.nextE \in {"self", "cycle2"})
(* damage in the other bucket never matters *)
OtherBucketIrrelevant ==
    /\ op = "addN" => ExpectMode(file, op) = ExpectMode([file EXCEPT !.headE = "ok", !.nlenC = "ok", !.nextC = "ok", !.nextE = "ok"], op)
    /\ op # "addN" => ExpectMode(file, op) = ExpectMode([file EXCEPT !.headN = "zero"], op)
(* a lookup that finds its record does not depend on the allocation limit *)
FoundIgnoresLimit == (op \in AddOps /\ file.vals # "max" /\ ~TooShort(file) /\ file.hdr = "ok" /\ Lookup(file, op)[1] = "found" /\ ~Lookup(file, op)[2]) => exp.mode = "persist"
(* the walk is total: it always ends in one of the four outcomes *)
WalkTotal == Lookup(file, op)[1] \in {"found", "absent", "invalid", "cycle"}
Sane == TypeOK /\ UndamagedPersists /\ ValuesIrrelevant /\ ParkedMeansMemory /\ MemoryHasCause /\ CycleHasCause /\ OtherBucketIrrelevant /\ FoundIgnoresLimit /\ WalkTotal
=============================================================================
