----------------------------- MODULE Telemetry -----------------------------
(* The whole telemetry pipeline at week granularity: programs increment     *)
(* counters, the counter package files them by week, the uploader folds     *)
(* finished weeks into reports and sends what the configuration and the     *)
(* consent mode allow, the upload server stores what validates, the worker  *)
(* merges stored reports by day and charts date ranges.                     *)
(*                                                                          *)
(* Written from the documentation and the statements of properties C01,     *)
(* C02, C07, C09, C11, C12 and C13 -- not from the code.  It composes the   *)
(* modules of those properties:                                             *)
(*   Calendar     Begin / End / Wd                 (where an increment lands) *)
(*   ModeFile     EffMode / ExactlyOn / OptIn / Written     (the mode file) *)
(*   ConsentOps   FinishedFiles / DataOf / Uploadable / Sendable   (gating) *)
(*   Approval     Approved5 / NameApproved / ServerAccepts  (configuration) *)
(*   WorkerChart  ChartFold / ChartOf                            (charting) *)
(*                                                                          *)
(* Vocabulary                                                               *)
(*   build   an element of Builds; BuildRec[p] is its (program, version,    *)
(*           gover, goos, goarch) record in Approval's vocabulary           *)
(*   name    an element of Names (a stack counter is named by its first     *)
(*           line); Chars[n] is the name in Approval's vocabulary           *)
(*   X, rates  integers 0..D standing for X/D                               *)
(*   cell    [p, b, e, n, v]: count file of build p for the span [b, e)     *)
(*           holds counter n with value v (a count file = its cells)        *)
(*   report  [wk, x, progs, data]: week (its end day), X, the builds named, *)
(*           data = set of [p, n, v]                                        *)
(*   instants are <<day, second of the day>>, day 0 = 1970-01-01            *)
EXTENDS ConsentOps, Sequences, TLC

CONSTANTS Builds, BuildRec, Names, Chars, Carry, Cfg, D, ChartDesc,
          Anchors,      \* day numbers a behaviour may start on
          Horizon,      \* days after the anchor the clock may reach
          WeekEnds,     \* week-end settings
          TickKinds,    \* which clock jumps are offered (see Targets)
          InitModes,    \* mode files a behaviour may start with
          SetModes,     \* modes SetMode may record
          Xs,           \* the X numerators an uploader run may draw
          MaxInc, MaxRun, MaxDown, MaxSet, MaxWork,
          Phased        \* TRUE: once the worker has started the client is quiet (worker steps commute with client steps)

A == INSTANCE Approval
W == INSTANCE WorkerChart

VARIABLES
    base, day, tod,   \* anchor; the clock
    wend,             \* the week-end setting (the `weekends` file)
    mf,               \* the mode file (ModeFile.tla)
    files,            \* set of cells: the count files
    local,            \* set of reports: local.<week>.json
    ready,            \* set of reports: <week>.json waiting to be sent
    uploaded,         \* set of reports: upload/<week>.json (the markers)
    store,            \* set of reports: objects <week>/<X>.json of the upload bucket
    merged,           \* set of [day, n, lines]: the merged objects (n lines, their set)
    charts,           \* set of [s, e, num, val]: the chart objects; val = set of [p, c, k, v], v > 0
    resp,             \* status of the last worker request (0: none)
    hist,             \* history: set of cells, v = the number of increments that ever landed in the cell
    built,            \* history: set of [wk, mf, src]: mode file and folded files when the week's report was built
    nInc, nRun, nDown, nSet, nWork,   \* bounds
    last              \* the action that led here

cvars == <<files, local, ready, uploaded, store>>                       \* the client side + upload bucket
wvars == <<merged, charts, resp>>
vars == <<base, day, tod, wend, mf, files, local, ready, uploaded, store, merged, charts, resp,
          hist, built, nInc, nRun, nDown, nSet, nWork, last>>

Lbl(op, p, n, m, x, up, s, e) == [op |-> op, p |-> p, n |-> n, m |-> m, x |-> x, up |-> up, s |-> s, e |-> e]

(* ---- configuration semantics (Approval.tla) ------------------------------ *)
(* Approval's operators, tabulated once over the finite universe of builds and *)
(* names (TLC evaluates constant definitions a single time).                   *)
BuildOKTab == [p \in Builds |-> A!Approved5(Cfg, BuildRec[p])]
RatesTab == [p \in Builds |-> [n \in Names |-> A!NameRates(Cfg, BuildRec[p].program, Chars[n])]]
ListedTab == [p \in Builds |-> [n \in Names |->
                 IF A!IsStack(Chars[n]) THEN A!StackListed(Cfg, BuildRec[p].program, Chars[n])
                                        ELSE A!CounterListed(Cfg, BuildRec[p].program, Chars[n])]]
BuildOK(p) == BuildOKTab[p]
NameOK(p, n, x) == \E r \in RatesTab[p][n] : x <= r          \* A!NameApproved: "rate not below X"
(* the report made ready for upload: the approved part of the local one *)
UploadRep(lr) == [wk |-> lr.wk, x |-> lr.x,
                  progs |-> {p \in lr.progs : BuildOK(p)},
                  data |-> {t \in lr.data : BuildOK(t.p) /\ NameOK(t.p, t.n, lr.x)}]
(* what the upload server accepts: a non-zero X and only approved contents     *)
(* (A!ServerAccepts: every program entry an approved build, every counter and  *)
(* stack listed for its program -- whatever the rate)                          *)
ServerOK(r) == /\ r.x # 0
               /\ \A p \in r.progs : BuildOK(p)
               /\ \A t \in r.data : t.p \in r.progs /\ ListedTab[t.p][t.n]
(* the same through Approval's own report vocabulary (checked equal in the small configurations) *)
ARep(r) == A!ReportOf({[b |-> BuildRec[t.p], n |-> Chars[t.n], v |-> t.v] : t \in r.data}, {BuildRec[p] : p \in r.progs})
ServerOKA(r) == r.x # 0 /\ A!ServerAccepts(Cfg, ARep(r))
UploadRepA(lr) == LET Ap(c, b) == A!Approved5(c, b)
                      f == A!Filter(Ap, Cfg, {[b |-> BuildRec[t.p], n |-> Chars[t.n], v |-> t.v] : t \in lr.data}, lr.x)
                  IN {t \in lr.data : [b |-> BuildRec[t.p], n |-> Chars[t.n], v |-> t.v] \in f}

(* ---- helpers --------------------------------------------------------------- *)
KeyOf(c) == [p |-> c.p, b |-> c.b, e |-> c.e]
Keys(cs) == {KeyOf(c) : c \in cs}
RECURSIVE SumV(_)
SumV(cs) == IF cs = {} THEN 0 ELSE LET c == CHOOSE c \in cs : TRUE IN c.v + SumV(cs \ {c})
RECURSIVE SumN(_)
SumN(gs) == IF gs = {} THEN 0 ELSE LET g == CHOOSE g \in gs : TRUE IN g.n + SumN(gs \ {g})
RECURSIVE SeqOf(_)
SeqOf(S) == IF S = {} THEN <<>> ELSE LET x == CHOOSE x \in S : TRUE IN <<x>> \o SeqOf(S \ {x})
WeekData(cs, wk) == {[p |-> c.p, n |-> c.n, v |-> SumV({d \in cs : d.e = wk /\ d.p = c.p /\ d.n = c.n})] : c \in {c \in cs : c.e = wk}}
Reported(lo, re, up, wk) == \E r \in lo \cup re \cup up : r.wk = wk

(* ---- Init --------------------------------------------------------------------- *)
Init == /\ base \in Anchors /\ day = base /\ tod \in {0, 43200}
        /\ wend \in WeekEnds
        /\ mf \in InitModes
        /\ files = {} /\ local = {} /\ ready = {} /\ uploaded = {} /\ store = {}
        /\ merged = {} /\ charts = {} /\ resp = 0
        /\ hist = {} /\ built = {}
        /\ nInc = 0 /\ nRun = 0 /\ nDown = 0 /\ nSet = 0 /\ nWork = 0
        /\ last = Lbl("init", "", "", "", 0, TRUE, 0, 0)

(* ---- Inc: a program build increments a counter ---------------------------------- *)
(* It lands in the file of the current span: begins today, ends on the first    *)
(* later day that falls on the week-end weekday (C09).  Nothing happens in mode *)
(* off (C02).                                                                    *)
Inc(p, n) ==
    /\ nInc < MaxInc
    /\ nInc' = nInc + 1
    /\ IF EffMode(mf) = "off"
       THEN UNCHANGED <<files, hist>>
       ELSE LET b == Begin(day)  e == End(day, wend)
                BumpCount(cs) == LET old == {c \in cs : c.p = p /\ c.b = b /\ c.e = e /\ c.n = n}
                            IN (cs \ old) \cup {[p |-> p, b |-> b, e |-> e, n |-> n, v |-> SumV(old) + 1]}
            IN files' = BumpCount(files) /\ hist' = BumpCount(hist)
    /\ last' = Lbl("inc", p, n, "", 0, TRUE, 0, 0)
    /\ UNCHANGED <<base, day, tod, wend, mf, local, ready, uploaded, store, merged, charts, resp, built, nRun, nDown, nSet, nWork>>

(* ---- Tick: the clock advances ------------------------------------------------------- *)
(* Offered targets are the instants around which behaviour changes: later today, *)
(* tomorrow, the end of the current week exactly and just after, a week later,  *)
(* and around the 21-day age limit of the current week.                          *)
Targets ==
    LET we == End(day, wend) IN
    (IF "half"  \in TickKinds /\ tod = 0 THEN {<<day, 43200>>} ELSE {}) \cup
    (IF "day"   \in TickKinds THEN {<<day + 1, 0>>, <<day + 1, 43200>>} ELSE {}) \cup
    (IF "wkend" \in TickKinds THEN {<<we, 0>>, <<we, 43200>>} ELSE {}) \cup
    (IF "week"  \in TickKinds THEN {<<day + 7, tod>>} ELSE {}) \cup
    (IF "old"   \in TickKinds THEN {<<we + 21, 0>>, <<we + 21, 43200>>} ELSE {})
Tick(i) ==
    /\ i \in Targets /\ Later(i, <<day, tod>>) /\ i[1] <= base + Horizon
    /\ day' = i[1] /\ tod' = i[2]
    /\ last' = Lbl("tick", "", "", "", 0, TRUE, i[1], i[2])
    /\ UNCHANGED <<base, wend, mf, files, local, ready, uploaded, store, merged, charts, resp, hist, built, nInc, nRun, nDown, nSet, nWork>>

(* ---- SetMode: the user records a mode as of today ------------------------------------- *)
SetMode(m) ==
    /\ nSet < MaxSet
    /\ mf' = Written(m, day)
    /\ nSet' = nSet + 1
    /\ last' = Lbl("setmode", "", "", m, 0, TRUE, 0, 0)
    /\ UNCHANGED <<base, day, tod, wend, files, local, ready, uploaded, store, merged, charts, resp, hist, built, nInc, nRun, nDown, nWork>>

(* ---- RunUploader: the crash-free sequential outcome of one uploader run ---------------- *)
(* with X = x for the reports it builds; `up` says whether the upload server      *)
(* answers (otherwise every request fails and the report stays for a later run).  *)
(*  - one local report per finished week that has no report (C07), over exactly   *)
(*    the finished files of the week; finished files of reported weeks go away;   *)
(*  - the report made ready is the approved subset (C01/C11), made only if the     *)
(*    week is Uploadable (C02);                                                    *)
(*  - ready reports -- new and left over -- are sent if Sendable (C02); the server *)
(*    stores exactly what validates under <week>/<X> (C12); an accepted report    *)
(*    becomes the week's uploaded marker, a refused one is dropped (C08).         *)
RunUploader(x, up) ==
    /\ nRun < MaxRun /\ (~up => nDown < MaxDown)
    /\ IF EffMode(mf) = "off"
       THEN UNCHANGED <<files, local, ready, uploaded, store, built>>
       ELSE LET fin == FinishedFiles(Keys(files), day, tod)
                weeks == {k.e : k \in fin}
                fresh == {wk \in weeks : ~Reported(local, ready, uploaded, wk)}
                fincells == {c \in files : KeyOf(c) \in fin}
                lrep(wk) == [wk |-> wk, x |-> x, progs |-> {k.p : k \in DataOf(fin, wk)}, data |-> WeekData(fincells, wk)]
                newReady == {UploadRep(lrep(wk)) : wk \in {w \in fresh : Uploadable(mf, DataOf(fin, w), w, x, Cfg.sample, day, tod)}}
                ready1 == ready \cup newReady
                toSend == IF up THEN {r \in ready1 : Sendable(mf, r.wk, day)} ELSE {}
                acked == {r \in toSend : ServerOK(r)}
            IN /\ files' = files \ fincells
               /\ local' = local \cup {lrep(wk) : wk \in fresh}
               /\ ready' = ready1 \ toSend
               /\ uploaded' = uploaded \cup acked
               /\ store' = {o \in store : ~\E r \in acked : r.wk = o.wk /\ r.x = o.x} \cup acked
               /\ built' = built \cup {[wk |-> wk, mf |-> mf, src |-> DataOf(fin, wk)] : wk \in fresh}
    /\ nRun' = nRun + 1
    /\ nDown' = IF up THEN nDown ELSE nDown + 1
    /\ last' = Lbl("run", "", "", "", x, up, 0, 0)
    /\ UNCHANGED <<base, day, tod, wend, mf, merged, charts, resp, hist, nInc, nSet, nWork>>

(* ---- the worker --------------------------------------------------------------------------- *)
(* Merge(s, e): the days s..e are merged one after the other (what the daily    *)
(* task queue does); merging a day writes one line per object stored for it.    *)
Objs(st, d) == {o \in st : o.wk = d}
MergedDay(st, d) == [day |-> d, n |-> Cardinality(Objs(st, d)), lines |-> Objs(st, d)]
WorkDays == LET ds == {o.wk : o \in store} IN IF ds = {} THEN {day} ELSE ds
MinD(S) == CHOOSE d \in S : \A x \in S : d <= x
MaxD(S) == CHOOSE d \in S : \A x \in S : d >= x
(* the requests offered: a stored week's day, the day before with it, all stored weeks at once *)
WorkRanges == {<<d, d>> : d \in WorkDays} \cup {<<d - 1, d>> : d \in WorkDays} \cup {<<MinD(WorkDays), MaxD(WorkDays)>>}
MergeRanges == WorkRanges
Merge(s, e) ==
    /\ nWork < MaxWork
    /\ merged' = {g \in merged : g.day \notin s..e} \cup {MergedDay(store, d) : d \in s..e}
    /\ resp' = 200
    /\ nWork' = nWork + 1
    /\ last' = Lbl("merge", "", "", "", 0, TRUE, s, e)
    /\ UNCHANGED <<base, day, tod, wend, mf, files, local, ready, uploaded, store, charts, hist, built, nInc, nRun, nDown, nSet>>

(* what a report line carries (WorkerChart.tla): the four build charts of every *)
(* program entry and chart:bucket of every counter (stack counters carry none)  *)
CarriesOf(o) ==
    UNION {{<<BuildRec[p].program, "Version", BuildRec[p].version>>, <<BuildRec[p].program, "GOOS", BuildRec[p].goos>>,
            <<BuildRec[p].program, "GOARCH", BuildRec[p].goarch>>, <<BuildRec[p].program, "GoVersion", BuildRec[p].gover>>} : p \in o.progs}
    \cup {<<BuildRec[t.p].program, Carry[t.n][1], Carry[t.n][2]>> : t \in {t \in o.data : Carry[t.n] # <<>>}}
Shape(o) == [id |-> o.x, carries |-> CarriesOf(o)]
RangeDays(mg, s, e) == {g \in mg : g.day \in s..e}
RangeLines(mg, s, e) == UNION {g.lines : g \in RangeDays(mg, s, e)}
ValSet(f) == {[p |-> t[1], c |-> t[2], k |-> t[3], v |-> f[t]] : t \in {t \in DOMAIN f : f[t] > 0}}

ChartRanges == WorkRanges
Chart(s, e) ==
    /\ nWork < MaxWork /\ s <= e
    /\ IF \E d \in s..e : ~\E g \in merged : g.day = d
       THEN resp' = 404 /\ charts' = charts
       ELSE LET lines == SeqOf({Shape(o) : o \in RangeLines(merged, s, e)})      \* read in some order, grouped as read
                res == W!ChartFold(lines, ChartDesc)
            IN /\ charts' = {c \in charts : ~(c.s = s /\ c.e = e)} \cup
                            {[s |-> s, e |-> e, num |-> SumN(RangeDays(merged, s, e)), val |-> ValSet(res.val)]}
               /\ resp' = 200
    /\ nWork' = nWork + 1
    /\ last' = Lbl("chart", "", "", "", 0, TRUE, s, e)
    /\ UNCHANGED <<base, day, tod, wend, mf, files, local, ready, uploaded, store, merged, hist, built, nInc, nRun, nDown, nSet>>

Next == \/ /\ Phased => nWork = 0
           /\ \/ \E p \in Builds, n \in Names : Inc(p, n)
              \/ \E i \in Targets : Tick(i)
              \/ \E m \in SetModes : SetMode(m)
              \/ \E x \in Xs, up \in BOOLEAN : RunUploader(x, up)
        \/ \E r \in MergeRanges : Merge(r[1], r[2])
        \/ \E r \in ChartRanges : Chart(r[1], r[2])
Spec == Init /\ [][Next]_vars

(* ============================ the properties ================================ *)
(* Each is an operator over explicit state components so that TelemetryTrace   *)
(* can evaluate the same text on states OBSERVED on the real code.             *)

(* EndToEnd: a datum (build, counter, week, value) is in the server's store   *)
(* only if the counter is approved for that build at a rate not below the      *)
(* report's X, consent was on with an opt-in day before the begin of every     *)
(* contributing file, and value is the sum of the increments that landed in    *)
(* that week for that build; every increment contributes to at most one stored *)
(* report.                                                                     *)
Landed(ih, p, n, wk) == SumV({h \in ih : h.p = p /\ h.n = n /\ h.e = wk})
EndToEndOn(st, ih, bh) ==
    /\ \A o \in st :
         /\ \A p \in o.progs : BuildOK(p)
         /\ \A t \in o.data : /\ t.p \in o.progs /\ BuildOK(t.p) /\ NameOK(t.p, t.n, o.x)
                              /\ t.v = Landed(ih, t.p, t.n, o.wk)
         /\ \E g \in bh : /\ g.wk = o.wk /\ ExactlyOn(g.mf)
                          /\ (OptIn(g.mf) # NoDate => \A f \in g.src : OptIn(g.mf) < f.b)
    /\ \A h \in ih :
         Cardinality({o \in st : o.wk = h.e /\ \E t \in o.data : t.p = h.p /\ t.n = h.n}) <= 1
EndToEnd == EndToEndOn(store, hist, built)

(* the store holds exactly the approved subset of the week's local report (C01: *)
(* "every approved counter present locally whose rate is at least X is included") *)
StoreIsApprovedSubsetOn(st, lo) == \A o \in st : \E l \in lo : l.wk = o.wk /\ o = UploadRep(l)
StoreIsApprovedSubset == StoreIsApprovedSubsetOn(store, local)

(* the server stores only what validates: a non-zero X and approved contents (C12, C11) *)
StoreValidOn(st) == \A o \in st : ServerOK(o)
StoreValid == StoreValidOn(store)

(* an increment lands in the file of the current span and nowhere else (C09) *)
IncLandsOn(p, n, d, w, fB, fA) ==
    LET b == Begin(d)  e == End(d, w)
        old == {c \in fB : c.p = p /\ c.b = b /\ c.e = e /\ c.n = n}
    IN fA = (fB \ old) \cup {[p |-> p, b |-> b, e |-> e, n |-> n, v |-> SumV(old) + 1]}
IncLands == [][(last'.op = "inc" /\ EffMode(mf) # "off") => IncLandsOn(last'.p, last'.n, day, wend, files, files')]_vars

(* a week is marked uploaded exactly when the server stored its report *)
MarkersMatchStoreOn(st, up) == /\ \A o \in st : o \in up
                               /\ \A u \in up : u \in st
                               /\ \A u, v \in up : u.wk = v.wk => u = v
MarkersMatchStore == MarkersMatchStoreOn(store, uploaded)

(* something is stored only by a run in mode on, for weeks that are Sendable (C02) *)
SendOnlyWithConsentOn(m, d, stB, stA) == \A o \in stA \ stB : Sendable(m, o.wk, d)
SendOnlyWithConsent == [][SendOnlyWithConsentOn(mf, day, store, store')]_vars

(* NothingInModeOff: neither the counter API nor the uploader creates, changes *)
(* or removes anything while the mode is off                                    *)
NothingInModeOffOn(m, op, before, after) == (EffMode(m) = "off" /\ op \in {"inc", "run"}) => after = before
NothingInModeOff == [][NothingInModeOffOn(mf, last'.op, cvars, cvars')]_vars

(* LocalReportsComplete: after a run in mode on or local every finished week    *)
(* that had no report has exactly one local report whose values are the sums    *)
(* over exactly the week's finished files; finished files are gone, unfinished  *)
(* ones and earlier reports are untouched, and no other report appears.         *)
LocalReportsCompleteOn(m, d, t, fB, lB, rB, uB, fA, lA) ==
    EffMode(m) # "off" =>
      LET fin == {c \in fB : MidnightBefore(c.e, d, t)}
          weeks == {c.e : c \in fin}
          fresh == {wk \in weeks : ~Reported(lB, rB, uB, wk)}
      IN /\ \A wk \in fresh : \E l \in lA : /\ l.wk = wk /\ l.data = WeekData(fin, wk) /\ l.progs = {c.p : c \in {c \in fin : c.e = wk}}
                                            /\ \A l2 \in lA : l2.wk = wk => l2 = l
         /\ fA = fB \ fin
         /\ lB \subseteq lA
         /\ \A l \in lA \ lB : l.wk \in fresh
LocalReportsComplete ==
    [][last'.op = "run" => LocalReportsCompleteOn(mf, day, tod, files, local, ready, uploaded, files', local')]_vars

(* MergeFaithful: merging a day yields exactly one record per report stored for it *)
MergeFaithfulOn(s, e, st, mB, mA) ==
    /\ \A d \in s..e : \E g \in mA : /\ g.day = d /\ g.lines = Objs(st, d) /\ g.n = Cardinality(Objs(st, d))
                                     /\ \A h \in mA : h.day = d => h = g
    /\ {g \in mA : g.day \notin s..e} = {g \in mB : g.day \notin s..e}
MergeFaithful == [][last'.op = "merge" => MergeFaithfulOn(last'.s, last'.e, store, merged, merged')]_vars

(* ChartCounts: the number of reports is the number of merged lines of the      *)
(* range and each charted value equals the number of distinct report ids in     *)
(* the range that carry that program's bucket (declaratively, over the SET of   *)
(* lines); a missing day is Not Found and nothing is written.                   *)
ChartCountsOn(s, e, mg, rs, cB, cA) ==
    IF \E d \in s..e : ~\E g \in mg : g.day = d
    THEN rs = 404 /\ cA = cB
    ELSE /\ rs = 200
         /\ \E c \in cA : /\ c.s = s /\ c.e = e
                          /\ c.num = SumN(RangeDays(mg, s, e))
                          /\ c.val = ValSet(W!ChartOf({Shape(o) : o \in RangeLines(mg, s, e)}, c.num, ChartDesc).val)
                          /\ \A c2 \in cA : (c2.s = s /\ c2.e = e) => c2 = c
         /\ {c \in cA : ~(c.s = s /\ c.e = e)} = {c \in cB : ~(c.s = s /\ c.e = e)}
ChartCounts == [][last'.op = "chart" => ChartCountsOn(last'.s, last'.e, merged, resp', charts, charts')]_vars

(* the calendar side of C09 on the files present *)
SpansOK == \A c \in files : c.e - c.b \in 1..7 /\ Wd(c.e) = wend /\ c.v >= 1
TypeOK == /\ \A r \in local \cup ready \cup uploaded \cup store : r.x \in Xs /\ r.progs \subseteq Builds
          /\ \A a, b \in local : a.wk = b.wk => a = b
          /\ \A a, b \in store : (a.wk = b.wk /\ a.x = b.x) => a = b
          /\ \A a, b \in merged : a.day = b.day => a = b
          /\ resp \in {0, 200, 404}

(* the tabulated configuration semantics agree with Approval.tla on every report met *)
TablesAgree == /\ \A l \in local : UploadRep(l).data = UploadRepA(l)
               /\ \A r \in ready \cup uploaded \cup store \cup {UploadRep(l) : l \in local} \cup local : ServerOK(r) = ServerOKA(r)

(* simulation walks are kept productive: no uploader run, merge or chart that *)
(* cannot change or observe anything, no re-recording of the same mode        *)
SimFocus == /\ last'.op = "run" => (cvars' # cvars \/ (EffMode(mf) = "off" /\ files # {}))
            /\ last'.op = "merge" => store # {}
            /\ last'.op = "chart" => store # {}
            /\ last'.op = "setmode" => mf' # mf

View == <<day, tod, wend, mf, files, local, ready, uploaded, store, merged, charts, resp, hist, built, nInc, nRun, nDown, nSet, nWork>>
=============================================================================
