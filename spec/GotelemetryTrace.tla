-------------------------- MODULE GotelemetryTrace --------------------------
(* code -> model for C19: every command run on the real binary (one JSON     *)
(* object per line: command, directory before and after with content ids,    *)
(* mode-file classes, whether the mode file stayed byte-identical, what      *)
(* `gotelemetry env` and the library read afterwards, the UTC day before and *)
(* after the command) is judged by the clauses of GotelemetryOps.tla.  A     *)
(* verdict <<"C19BAD", line, violated clauses, diverges>> is printed for     *)
(* every line that falsifies a clause or differs from the specified effect.  *)
EXTENDS GotelemetryOps, Json, TLC
Trace == ndJsonDeserialize("c19obs.ndjson")
VARIABLE l
ToSet(q) == {q[i] : i \in DOMAIN q}
Ent(x) == [loc |-> x.loc, name |-> x.name, kind |-> x.kind, c |-> x.c]
MF(m) == [k |-> m.k, w |-> m.w, d |-> m.d, pad |-> m.pad]
StateOf(o) == [tree |-> {Ent(x) : x \in ToSet(o.tree)}, modeFile |-> MF(o.modeFile)]
If(c, name) == IF c THEN {} ELSE {name}
(* the UTC date before and after the command, whatever TZ the command ran with: the mode file's date is read  *)
(* back as a UTC day and counter files begin at 00:00 UTC                                                  *)
Days(r) == {r.today0, r.today1}
UtcDays(r) == {r.today0, r.today1}
Violated(r) ==
    LET c == r.cmd  s == StateOf(r.s)  t == StateOf(r.t) IN
         If(K_CleanRemovesData(c, s, t), "CleanRemovesData")
    \cup If(K_CleanNothingElse(c, s, t, r.modeSame), "CleanNothingElse")
    \cup If(K_CleanKeepsNonEmptyDirs(c, s, t), "CleanKeepsNonEmptyDirs")
    \cup If(K_ModeOnlyMode(c, s, t), "ModeOnlyMode")
    \cup If(K_NoOpWhenSame(c, s, t, r.modeSame), "NoOpWhenSame")
    \cup If(K_Records(c, s, <<r.env.w, r.env.d>>, <<r.lib.w, r.lib.d>>, Days(r)), "Records")
Predicted(r) ==
    LET s == StateOf(r.s)  t == StateOf(r.t) IN
    /\ \E d \in UtcDays(r) : t = CmdStep(s, r.cmd, d)
    /\ <<r.lib.w, r.lib.d>> = ReadBack(t.modeFile)
    /\ (r.cmd = "env" => <<r.env.w, r.env.d>> = ReadBack(s.modeFile))
    /\ (r.cmd \in Commands <=> r.rc = 0)
Init == l = 1
Next == /\ l <= Len(Trace)
        /\ l' = l + 1
        /\ LET r == Trace[l]  v == Violated(r)  p == Predicted(r) IN
           (v # {} \/ ~p) => PrintT(<<"C19BAD", l, v, ~p>>)
Accepted == TLCGet("stats").diameter = Len(Trace) + 1
=============================================================================
