----------------------------- MODULE ApprovalHist -----------------------------
(* Histories of uploader runs for C01 ("... listed in the upload             *)
(* configuration fetched for the run that BUILT it ... and reports left over *)
(* from earlier runs").  Expired counter files of a week arrive, the uploader *)
(* runs under some configuration and some X, the server answers 200 / 4xx /  *)
(* 5xx.  A report that was built but not acknowledged (5xx) stays on disk and *)
(* is sent again, unchanged, by a later run that may have fetched a different *)
(* configuration.  Every request is checked against the configuration and X  *)
(* of the run that built the report.                                          *)
(*                                                                            *)
(* The configuration is not an input of a run: the uploader fetches whatever   *)
(* the config server serves as "latest" when the run starts.  Publish(c)       *)
(* makes c the latest version between runs; the uploader talks to the same     *)
(* server with the same environment all the time.  A run happens either in    *)
(* the process that did the previous runs or in a fresh one (`fresh`): for the *)
(* specification that makes no difference - whatever an earlier run of the    *)
(* process fetched, "the upload configuration fetched for the run" is the one *)
(* published when the run starts.                                              *)
(*                                                                            *)
(* Several uploaders may work on one directory.  A run may LOSE the exclusive *)
(* creation of local.<week>.json to another uploader that created it between *)
(* this run's existence checks and its own create (`how = "raced"`): the run   *)
(* still builds, keeps and posts its upload report.  For the specification    *)
(* that changes nothing either: every body that is ever posted from this       *)
(* directory is the approved subset built for its week, whatever file it was   *)
(* read from, and a week that was refused or acknowledged is never posted      *)
(* again.                                                                      *)
(*                                                                            *)
(* TLC checks the invariants on the whole state graph for small constants and *)
(* produces -simulate behaviours; the harness replays them run by run into    *)
(* the real upload.Run and compares requests and directory contents with the  *)
(* state (model -> code).                                                     *)
EXTENDS ApprovalTok

CONSTANTS WeekSet,    \* weeks whose files may arrive
          MaxRuns,
          MaxPub      \* how many configuration versions are published in all
VARIABLES pending,    \* expired counter files on disk (token level)
          archive,    \* week -> the files that were folded into its report
          built,      \* week -> [cfg, x, run] of the run that built its report
          ready,      \* weeks whose upload report sits in local/ unacknowledged
          uploaded,   \* weeks whose report was acknowledged (upload/<week>.json)
          dropped,    \* weeks whose report the server refused (4xx): deleted, never sent again
          posts,      \* weeks whose report the server received during the last run
          published,  \* the configuration the config server currently serves as "latest"
          npub,       \* its version number: every publication is a new, higher version
          nrun, last,
          obs         \* what an observer of the machine and of the server sees (derived)
vars == <<pending, archive, built, ready, uploaded, dropped, posts, published, npub, nrun, last, obs>>

(* ---- universe: three configurations that differ in what they approve ---------*)
HCfgs == [A |-> Cfg({Prog(P1, {V1}, {E("c", D), E("c:{a,b}", D)}, {E("s", D)}), Prog(P2, {V2}, {E("d", D)}, {})}, D),
          B |-> Cfg({Prog(P1, {V1}, {E("d", D), E("c", D \div 2)}, {}), Prog(P2, {V2}, {E("c", D)}, {E("s", D \div 2)})}, D),
          C |-> Cfg({Prog(P1, {"v0.9.0"}, {E("c", D)}, {E("s", D)})}, D)]
CfgIds == {"A", "B", "C"}
HToks == {"c", "c:a", "d", "s\nf1\nf2"}
HFiles(w) == {{File(10 * w + 1, B0, w, HToks)},
              {File(10 * w + 1, B0, w, {"c", "d"}), File(10 * w + 2, B2, w, HToks)},
              {File(10 * w + 1, B0, w, {"c"}), File(10 * w + 2, B0, w, {"c", "s\nf1\nf2"})}}
HXs == {D \div 4, (3 * D) \div 4}
(* 200 acknowledges; any 4xx refuses (the report is deleted and never sent    *)
(* again); every other status (5xx, and 2xx other than 200) leaves the report *)
(* in place to be sent again                                                  *)
Replies == {200, 204, 400, 404, 500, 503}
(* how a run happens: in the process of the earlier runs, in a fresh process, or
   (same process) losing the creation of the local reports to a concurrent uploader *)
Hows == {"same", "fresh", "raced"}
Acked(r) == r = 200
Refused(r) == r \in 400..499

Reported == DOMAIN built

(* the body of the report of week w: fixed when it is built *)
BodyOf(bl, ar, w) == LET b == bl[w]  cfg == CCfg(HCfgs[b.cfg])  files == CFiles(ar[w]) IN
           [w |-> w, cfg |-> b.cfg, ver |-> b.ver, x |-> b.x,
            data |-> TData(UploadReport5(cfg, files, w, b.x)),
            progs |-> UploadBuilds(Approved5, cfg, files, w),
            local |-> TData(LocalReport(files, w))]
(* what the harness compares after each step: local/<w>.json (ready), the    *)
(* requests of the last run, upload/<w>.json, local/local.<w>.json, count files *)
ViewOf(bl, ar, rd, ps, up, pd) ==
    [ready |-> {BodyOf(bl, ar, w) : w \in rd}, posts |-> {BodyOf(bl, ar, w) : w \in ps},
     uploaded |-> up, reported |-> DOMAIN bl, pending |-> {f.id : f \in pd}]

Init == /\ pending = {} /\ archive = <<>> /\ built = <<>> /\ ready = {} /\ uploaded = {} /\ dropped = {}
        /\ posts = {} /\ nrun = 0 /\ last = [op |-> "init"]
        /\ published \in CfgIds /\ npub = 1
        /\ obs = ViewOf(<<>>, <<>>, {}, {}, {}, {})

Arrive(w, fs) ==
    /\ w \notin Reported /\ \A f \in pending : f.week # w
    /\ pending' = pending \cup fs
    /\ last' = [op |-> "arrive", w |-> w]
    /\ UNCHANGED <<archive, built, ready, uploaded, dropped, posts, published, npub, nrun>>

Publish(c) ==
    /\ npub < MaxPub /\ c # published
    /\ published' = c /\ npub' = npub + 1
    /\ last' = [op |-> "publish", cfg |-> c, ver |-> npub + 1]
    /\ UNCHANGED <<pending, archive, built, ready, uploaded, dropped, posts, nrun>>

Run(x, reply, how) ==
    /\ nrun < MaxRuns
    /\ LET new == {f.week : f \in pending}
           send == ready \cup new
       IN /\ archive' = [w \in DOMAIN archive \cup new |-> IF w \in new THEN {f \in pending : f.week = w} ELSE archive[w]]
          /\ built' = [w \in DOMAIN built \cup new |-> IF w \in new THEN [cfg |-> published, ver |-> npub, x |-> x, run |-> nrun + 1] ELSE built[w]]
          /\ posts' = send
          /\ ready' = IF ~Acked(reply) /\ ~Refused(reply) THEN send ELSE {}
          /\ uploaded' = IF Acked(reply) THEN uploaded \cup send ELSE uploaded
          /\ dropped' = IF Refused(reply) THEN dropped \cup send ELSE dropped
    /\ pending' = {}
    /\ nrun' = nrun + 1
    /\ last' = [op |-> "run", cfg |-> published, ver |-> npub, x |-> x, reply |-> reply, how |-> how]
    /\ UNCHANGED <<published, npub>>

Next == /\ \/ \E w \in WeekSet : \E fs \in HFiles(w) : Arrive(w, fs)
           \/ \E c \in CfgIds : Publish(c)
           \/ \E x \in HXs, reply \in Replies, how \in Hows : Run(x, reply, how)
        /\ obs' = ViewOf(built', archive', ready', posts', uploaded', pending')
Spec == Init /\ [][Next]_vars

(* The same actions in a fixed rhythm, used for half of the -simulate walks:  *)
(* (files arrive)? , run , publish , (files arrive)? , run , publish ...  so    *)
(* that every walk has consecutive runs with the published configuration       *)
(* changing in between (random walks of Next rarely take the Publish step).     *)
NextCycle == /\ \/ /\ last.op \in {"init", "publish"}
                   /\ \/ \E w \in WeekSet : \E fs \in HFiles(w) : Arrive(w, fs)
                      \/ \E x \in HXs, reply \in Replies, how \in Hows : Run(x, reply, how)
                \/ /\ last.op = "arrive"
                   /\ \E x \in HXs, reply \in Replies, how \in Hows : Run(x, reply, how)
                \/ /\ last.op = "run"
                   /\ IF npub < MaxPub THEN \E c \in CfgIds : Publish(c)
                      ELSE \/ \E w \in WeekSet : \E fs \in HFiles(w) : Arrive(w, fs)
                           \/ \E x \in HXs, reply \in Replies, how \in Hows : Run(x, reply, how)
             /\ obs' = ViewOf(built', archive', ready', posts', uploaded', pending')
SpecCycle == Init /\ [][NextCycle]_vars

(* exhaustive search: the label of the last action and the derived observation do not distinguish states *)
HView == <<pending, archive, built, ready, uploaded, dropped, posts, published, npub, nrun>>

(* ---- properties -----------------------------------------------------------------------*)
TypeOK == /\ ready \subseteq Reported /\ uploaded \subseteq Reported /\ dropped \subseteq Reported
          /\ posts \subseteq Reported
          /\ ready \cap uploaded = {} /\ ready \cap dropped = {} /\ uploaded \cap dropped = {}
          /\ \A f \in pending : f.week \notin Reported
(* C01 on every request of the last run: the body is what the configuration  *)
(* of the run that built it approves, whatever configuration the sending run *)
(* fetched                                                                     *)
PostedIsApprovedByItsBuilder ==
    \A w \in posts : LET b == built[w]  cfg == CCfg(HCfgs[b.cfg])  files == CFiles(archive[w]) IN
        /\ C01BodyOK(cfg, files, w, b.x, UploadBuilds(Approved5, cfg, files, w), UploadReport5(cfg, files, w, b.x))
        /\ \A t \in UploadReport5(cfg, files, w, b.x) : NameApproved(cfg, t.b.program, t.n, b.x)
        /\ b.run <= nrun
(* a report is built under the configuration that is published when its run  *)
(* starts, whatever earlier runs (of the same process or not) fetched          *)
BuiltUnderPublished == [][(nrun' = nrun + 1) => \A w \in DOMAIN built' \ DOMAIN built :
                             built'[w].cfg = published /\ built'[w].ver = npub /\ built'[w].run = nrun + 1]_vars
(* a report leaves the machine only while unacknowledged: nothing acknowledged *)
(* or refused is ever posted again                                              *)
NoResend == [][(nrun' = nrun + 1) => \A w \in (uploaded \cup dropped) : w \notin posts']_vars
(* a leftover report is re-sent by every later run until the server answers 200 / 4xx *)
LeftoverResent == [][(nrun' = nrun + 1) => ready \subseteq posts']_vars
(* a leftover report keeps the configuration and X it was built with *)
BuiltIsFrozen == [][\A w \in DOMAIN built : built'[w] = built[w] /\ archive'[w] = archive[w]]_vars

=============================================================================
