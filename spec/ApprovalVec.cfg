\* Reference configuration of ApprovalVec (quick tier, C01).  The checks generate
\* the same text with Family / Big chosen per property and tier, together with an
\* MC module (MCApprovalVec EXTENDS ApprovalVec) that defines MCNameOf / MCValOf,
\* the token tables built from the string literals of the modules.
INIT Init
NEXT Next
INVARIANTS Theorems ServerTheorems ExpandSane
POSTCONDITION Written
CHECK_DEADLOCK FALSE
CONSTANTS
  D = 8
  NameOf <- MCNameOf
  ValOf <- MCValOf
  Family = "c01"
  Big = FALSE
