---------------------------- MODULE CalendarApa ----------------------------
(* Unbounded check of the span arithmetic of Calendar.tla with Apalache:     *)
(* for EVERY natural day number and every week-end setting the span is 1..7  *)
(* days long, ends on the configured weekday, and no earlier later day falls *)
(* on that weekday.  (TLC checks the same over 1970-2037 only.)              *)
EXTENDS Integers

VARIABLES
    \* @type: Int;
    d,
    \* @type: Int;
    w

Wd(x) == (x + 4) % 7
Incr(x, y) == ((y - Wd(x) + 6) % 7) + 1
End(x, y) == x + Incr(x, y)

Init == d \in Nat /\ w \in 0..6
Next == UNCHANGED <<d, w>>

SpanOK == /\ End(d, w) - d >= 1 /\ End(d, w) - d <= 7
          /\ Wd(End(d, w)) = w
          /\ \A k \in 1..7 : (d + k < End(d, w)) => Wd(d + k) # w
=============================================================================
