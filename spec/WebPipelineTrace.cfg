INIT Init
NEXT Next
INVARIANT AllExplained
CHECK_DEADLOCK FALSE
