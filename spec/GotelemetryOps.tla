-------------------------- MODULE GotelemetryOps --------------------------
(* Property C19, constant level: which entries of a telemetry directory are *)
(* counter files and reports, what `gotelemetry clean`, `on`, `local`,      *)
(* `off` and `env` do to a directory, and the clauses of the property as    *)
(* predicates over (command, state before, state after).  Written from the  *)
(* property text and the command's documentation.                           *)
(*                                                                          *)
(* A directory is a set of entries [loc, name, kind, c]: loc is the         *)
(* directory the entry sits in relative to the telemetry directory ("root", *)
(* "local", "upload", or a deeper one such as "local/sub"), kind is "file"  *)
(* or "dir", c identifies the content (equal c = byte-identical).  The mode *)
(* file is kept apart as a ModeFile content class.                          *)
EXTENDS ModeFile, Sequences, FiniteSets

HasSuffix(s, suf) == Len(s) > Len(suf) /\ SubSeq(s, Len(s) - Len(suf) + 1, Len(s)) = suf

(* counter files live in local/ and are named *.v1.count (format version 1); *)
(* reports are the *.json files of local/ (local.<week>.json kept for the    *)
(* user, <week>.json waiting for upload) and of upload/ (<week>.json sent)   *)
(* Only files are data.  A NON-EMPTY directory whose name happens to end in    *)
(* .json or .v1.count is neither a counter file nor a report: it and everything *)
(* below it must stay, and it must not keep clean from removing the real data   *)
(* files around it.  (An EMPTY directory with such a name is not generated: the *)
(* property is silent on whether removing it is right.)                         *)
IsCounterFile(e) == e.kind = "file" /\ e.loc = "local" /\ HasSuffix(e.name, ".v1.count")
IsReport(e) == e.kind = "file" /\ e.loc \in {"local", "upload"} /\ HasSuffix(e.name, ".json")
IsData(e) == IsCounterFile(e) \/ IsReport(e)

Commands == {"clean", "on", "local", "off", "env"}
(* command lines the tool must refuse (the commands take no arguments; unknown  *)
(* command): nothing changes                                                    *)
BadCommands == {"clean all", "on now", "local x", "off x", "env x", "purge"}

(* state: [tree, modeFile];  effect of a command run on day `today`          *)
CleanStep(s) == [s EXCEPT !.tree = {e \in s.tree : ~IsData(e)}]
ModeStep(s, m, today) == IF ReadBack(s.modeFile)[1] = m THEN s ELSE [s EXCEPT !.modeFile = Written(m, today)]
CmdStep(s, c, today) == CASE c = "clean" -> CleanStep(s)
                          [] c \in ValidModes -> ModeStep(s, c, today)
                          [] OTHER -> s

(* ---- clauses ---------------------------------------------------------------- *)
Same(e, f) == e.loc = f.loc /\ e.name = f.name
(* "clean removes every counter file and every report, local and uploaded"      *)
K_CleanRemovesData(c, s, t) == c = "clean" => \A e \in s.tree : IsData(e) => ~\E f \in t.tree : Same(e, f)
(* "and nothing else: the mode file, the week-end setting and unrelated files   *)
(* stay byte-identical" (modeSame: the mode file is byte-identical)             *)
K_CleanNothingElse(c, s, t, modeSame) ==
    c = "clean" => /\ \A e \in s.tree : ~IsData(e) => e \in t.tree
                   /\ t.tree \subseteq s.tree
                   /\ modeSame
(* in particular a non-empty directory of local/ or upload/ whose name looks    *)
(* like a data file stays with all that is below it                             *)
NameLikeData(e) == \/ e.loc = "local" /\ HasSuffix(e.name, ".v1.count")
                   \/ e.loc \in {"local", "upload"} /\ HasSuffix(e.name, ".json")
PathOf(e) == IF e.loc = "root" THEN e.name ELSE e.loc \o "/" \o e.name
HasPrefix(x, pre) == Len(x) >= Len(pre) /\ SubSeq(x, 1, Len(pre)) = pre
Under(f, e) == f.loc = PathOf(e) \/ HasPrefix(f.loc, PathOf(e) \o "/")
NonEmptyDataNamedDir(tree, e) == e.kind = "dir" /\ NameLikeData(e) /\ \E f \in tree : f.loc = PathOf(e)
K_CleanKeepsNonEmptyDirs(c, s, t) ==
    c = "clean" => \A e \in s.tree : NonEmptyDataNamedDir(s.tree, e) =>
                      /\ e \in t.tree
                      /\ \A f \in s.tree : Under(f, e) => f \in t.tree
(* "on, local and off change only the mode file"                                *)
K_ModeOnlyMode(c, s, t) == c \in ValidModes => t.tree = s.tree
(* "leave it untouched when the mode is already the requested one"              *)
K_NoOpWhenSame(c, s, t, modeSame) == (c \in ValidModes /\ ReadBack(s.modeFile)[1] = c) => modeSame
(* "and otherwise record the requested mode with the current date so that a     *)
(* later env or library read reports it" (seen: what env / the library report   *)
(* afterwards; days: the UTC dates the command may have seen)                   *)
K_Records(c, s, seenEnv, seenLib, days) ==
    (c \in ValidModes /\ ReadBack(s.modeFile)[1] # c) =>
        /\ seenLib[1] = c /\ seenLib[2] \in days
        /\ seenEnv = seenLib
=============================================================================
