-------------------------- MODULE StrayNamesTrace --------------------------
(* code -> model for StrayNames.tla: one line of c05stray.ndjson per (name      *)
(* class, mode) that upload.Run was run on: [c, m, o].                          *)
EXTENDS StrayNames, Json, Sequences
Trace == ndJsonDeserialize("c05stray.ndjson")
Bad == {<<i, Verdict(Trace[i].c, Trace[i].m, Trace[i].o)>> : i \in {j \in 1..Len(Trace) : Verdict(Trace[j].c, Trace[j].m, Trace[j].o) # "ok"}}
ASSUME PrintT(<<"C05SBAD", Bad>>)
VARIABLE l
TInit == l = 1 /\ cls = "one" /\ mode = "on"
TNext == l < Len(Trace) /\ l' = l + 1 /\ UNCHANGED vars
TSpec == TInit /\ [][TNext]_<<l, vars>>
=============================================================================
