------------------------------- MODULE Server -------------------------------
(* C12 -- the upload endpoint of telemetry.go.dev.                            *)
(*                                                                           *)
(* Written from the property text and the documentation of reports and of    *)
(* the upload configuration, not from the handler:                           *)
(*   a request is stored iff its method is POST, its body is within the size *)
(*   limit and is a JSON report whose Week is a valid date YYYY-MM-DD, whose *)
(*   Config is a semantic version, whose X is non-zero and whose programs,   *)
(*   counters and stacks are all approved by the upload configuration; the   *)
(*   object is named by the report's week and X; everything else is answered *)
(*   4xx and changes nothing; nothing is ever answered 5xx and nothing is    *)
(*   written outside the bucket.                                             *)
(* A request is abstracted into the structure the decision depends on; the   *)
(* abstraction of concrete bytes is done by the harness (checks/c12.py) with *)
(* its own tokenizers.  Where the property is silent the verdict is          *)
(* "unspecified" and both outcomes are allowed (but never 5xx, never a       *)
(* partial effect).                                                          *)
EXTENDS Integers, Sequences, FiniteSets, TLC

CONSTANTS CfgGOOS, CfgGOARCH, CfgGoVersion,  \* sets of strings
          CfgPrograms,  \* [program name -> [versions : set of strings,
                        \*                   counters : set of [prefix, buckets],
                        \*                   stacks   : set of strings]]
          Limit         \* request size limit in bytes

(* ---- the upload configuration ------------------------------------------- *)
(* a counter is configured in collapsed form  prefix{b1,b2,...}  and stands  *)
(* for the names prefix \o b1, prefix \o b2, ...; without buckets it stands  *)
(* for itself                                                                *)
Expand(c) == IF c.buckets = {} THEN {c.prefix} ELSE {c.prefix \o b : b \in c.buckets}
CountersOf(prog) == UNION {Expand(c) : c \in CfgPrograms[prog].counters}
StacksOf(prog) == CfgPrograms[prog].stacks

(* a stack counter is named by its first line; the call stack follows *)
ApprovedProgram(p) ==
    /\ ~p.nil
    /\ p.program \in DOMAIN CfgPrograms
    /\ p.version \in CfgPrograms[p.program].versions
    /\ p.goversion \in CfgGoVersion
    /\ p.goos \in CfgGOOS
    /\ p.goarch \in CfgGOARCH
    /\ p.counters \subseteq CountersOf(p.program)
    /\ {s.first : s \in p.stacks} \subseteq StacksOf(p.program)

ToSet(s) == {s[i] : i \in DOMAIN s}

(* ---- field verdicts: "valid" | "invalid" | "unspecified" ------------------ *)
IsLeap(y) == (y % 4 = 0 /\ y % 100 # 0) \/ y % 400 = 0
DaysIn(y, m) == CASE m \in {1, 3, 5, 7, 8, 10, 12} -> 31
                  [] m \in {4, 6, 9, 11} -> 30
                  [] m = 2 -> (IF IsLeap(y) THEN 29 ELSE 28)
                  [] OTHER -> 0
ValidDate(y, m, d) == y \in 1..9999 /\ m \in 1..12 /\ d \in 1..DaysIn(y, m)

(* week.shape = "iso": exactly four, two and two ASCII digits separated by   *)
(* "-" (the numbers are y, m, d); anything else is not a date                *)
(* "isoesc": the same ten characters written with JSON \u escapes in the    *)
(* body -- the report's week is the decoded string                          *)
IsoShapes == {"iso", "isoesc"}
WeekVerdict(w) ==
    IF w.shape \notin IsoShapes THEN "invalid"
    ELSE IF w.y = 0 /\ w.m \in 1..12 /\ w.d \in 1..DaysIn(0, w.m) THEN "unspecified"   \* year 0000: not decided here
    ELSE IF ValidDate(w.y, w.m, w.d) THEN "valid" ELSE "invalid"

(* config: "v" MAJOR "." MINOR "." PATCH ["-" prerelease] ["+" build]         *)
(* (semver.org 2.0.0 with the customary leading v).  The shorthands vMAJOR   *)
(* and vMAJOR.MINOR are accepted by some libraries: unspecified.             *)
ConfigVerdict(c) ==
    LET numsOK == \A i \in DOMAIN c.nums : c.nums[i] = "num" IN
    IF c.v /\ Len(c.nums) = 3 /\ numsOK /\ c.pre \in {"none", "ok"} /\ c.build \in {"none", "ok"} THEN "valid"
    ELSE IF c.v /\ Len(c.nums) \in {1, 2} /\ numsOK THEN "unspecified"
    ELSE "invalid"

(* X: a JSON number.  zero (0, -0, 0.0, absent) is invalid; numbers that a   *)
(* 64-bit float cannot hold (1e999) or that round to zero (1e-999):          *)
(* unspecified                                                               *)
XVerdict(x) == CASE x.kind = "nonzero" -> "valid"
                 [] x.kind = "zero" -> "invalid"
                 [] OTHER -> "unspecified"

(* programs: absent / null / a list.  A null list element is not a program:  *)
(* whether such a report is refused or stored without it is unspecified --   *)
(* but see Never5xx.                                                         *)
ProgramsVerdict(pf, ps) ==
    IF pf # "list" THEN "valid"
    ELSE IF \E p \in ToSet(ps) : p.nil THEN "unspecified"
    ELSE IF \A p \in ToSet(ps) : ApprovedProgram(p) THEN "valid"
    ELSE "invalid"

(* Layouts in which the body is more than one plain report object: bytes     *)
(* after the first JSON value ("trailing"), a field no report has            *)
(* ("unknown"), a key written twice ("dupkey").  Whether such a request is   *)
(* accepted is not specified -- but if it is, the stored object is still ONE *)
(* JSON value, with report fields only, each once, that decodes to the       *)
(* report the server validated (the first value; the last of two equal keys).*)
LooseLayouts == {"trailing", "unknown", "dupkey"}
LayoutVerdict(r) == IF r.layout \in LooseLayouts THEN "unspecified" ELSE "valid"
Verdicts(r) == {WeekVerdict(r.week), ConfigVerdict(r.config), XVerdict(r.x), ProgramsVerdict(r.pform, r.programs), LayoutVerdict(r)}

(* The size clause: "bodies over the size limit are refused".  r.len is the   *)
(* number of body bytes the request carries.  Whether the sender announced   *)
(* that number (r.declared: a Content-Length header) or not (a chunked body  *)
(* of unknown length) makes no difference: the limit is on the bytes.        *)
TooLarge(r) == r.len > Limit
SizeClauseIgnoresDeclaration == \A d \in BOOLEAN, n \in {0, Limit - 1, Limit, Limit + 1, 3 * Limit} :
    TooLarge([len |-> n, declared |-> d]) = (n > Limit)
ASSUME SizeClauseIgnoresDeclaration

(* ---- the decision --------------------------------------------------------- *)
(* r.kind = "report": the body is one JSON object with the report fields     *)
(* (every field of the right JSON type or absent); r.kind = "garbage": the   *)
(* body is anything else (not JSON, truncated, wrong types, not an object)   *)
Decision(r) ==
    IF r.method # "POST" THEN "reject"
    ELSE IF TooLarge(r) /\ r.layout = "trailing" THEN "either"   \* the report itself may fit: only the bytes after it exceed the limit
    ELSE IF TooLarge(r) THEN "reject"
    ELSE IF r.kind # "report" THEN "reject"
    ELSE IF "invalid" \in Verdicts(r) THEN "reject"
    ELSE IF "unspecified" \in Verdicts(r) THEN "either"
    ELSE "store"

(* ---- object names --------------------------------------------------------- *)
(* the object is named  <week>/<X>.json ; as a path below the bucket that is *)
(* the components of the week text followed by one file component.  Path     *)
(* component classes: "n" ordinary, "dd" "..", "d" ".", "e" empty (a leading *)
(* empty component makes the path absolute).                                 *)
Key(r) == [y |-> r.week.y, m |-> r.week.m, d |-> r.week.d, x |-> r.x.val]
ObjectPath(r) == r.week.path \o <<"n">>
RECURSIVE Depths(_, _)
Depths(p, d) == IF p = <<>> THEN <<>>
                ELSE LET d2 == CASE Head(p) = "dd" -> d - 1
                                 [] Head(p) \in {"d", "e"} -> d
                                 [] OTHER -> d + 1
                     IN <<d2>> \o Depths(Tail(p), d2)
InsideBucket(p) == /\ p # <<>> /\ Head(p) # "e"
                   /\ LET ds == Depths(p, 0) IN
                        /\ \A i \in 1..Len(ds) : ds[i] >= 0
                        /\ ds[Len(ds)] >= 1 /\ p[Len(p)] = "n"

(* Objects live in one directory per week.  "Creates or changes nothing" and  *)
(* "no write outside the bucket" are about everything a request can leave    *)
(* behind, directories included: below the bucket directory there is exactly *)
(* one directory for every week that has a stored object, and none anywhere  *)
(* else that was not there before.                                           *)
Dirs(bk) == {[y |-> k.y, m |-> k.m, d |-> k.d] : k \in DOMAIN bk}

Content(r) == [week |-> r.week, config |-> r.config, x |-> r.x, pform |-> r.pform, programs |-> r.programs, tag |-> r.tag]

(* ---- the endpoint as a state machine -------------------------------------- *)
CONSTANTS Requests,      \* the request classes explored
          InitBuckets,   \* [label -> initial bucket contents] explored
          MaxReq         \* bound on the number of requests of a behaviour
VARIABLES bucket,        \* [Key -> Content] : the upload bucket
          b0,            \* label of the initial bucket (never changes; lets a dumped state name its origin)
          last,          \* the last request
          status,        \* status class of the answer: "2xx" | "4xx"
          stored,        \* whether the last request was stored
          nreq           \* number of requests handled
vars == <<bucket, b0, last, status, stored, nreq>>

Put(f, k, v) == [x \in (DOMAIN f) \cup {k} |-> IF x = k THEN v ELSE f[x]]

Init == /\ b0 \in DOMAIN InitBuckets /\ bucket = InitBuckets[b0]
        /\ last = [method |-> "none"]
        /\ status = "none" /\ stored = FALSE /\ nreq = 0

Store(r) == /\ bucket' = Put(bucket, Key(r), Content(r))
            /\ status' = "2xx" /\ stored' = TRUE
Reject(r) == /\ bucket' = bucket
             /\ status' = "4xx" /\ stored' = FALSE

Handle(r) == /\ nreq < MaxReq
             /\ last' = r /\ nreq' = nreq + 1 /\ b0' = b0
             /\ CASE Decision(r) = "store" -> Store(r)
                  [] Decision(r) = "reject" -> Reject(r)
                  [] OTHER -> Store(r) \/ Reject(r)

Next == \E r \in Requests : Handle(r)
Spec == Init /\ [][Next]_vars

(* ---- the property --------------------------------------------------------- *)
ValidReport(c) == LET v == {WeekVerdict(c.week), ConfigVerdict(c.config), XVerdict(c.x), ProgramsVerdict(c.pform, c.programs)}
                  IN "invalid" \notin v
(* every stored object is a valid report, sits under the name built from its *)
(* own week and X, and that name is inside the bucket                        *)
StoredAreValid == \A k \in DOMAIN bucket :
                     /\ ValidReport(bucket[k])
                     /\ k = [y |-> bucket[k].week.y, m |-> bucket[k].week.m, d |-> bucket[k].week.d, x |-> bucket[k].x.val]
                     /\ InsideBucket(bucket[k].week.path \o <<"n">>)
Never5xx == status \in {"none", "2xx", "4xx"}
StoreIff == [][/\ (stored' => Decision(last') # "reject")
               /\ (~stored' => Decision(last') # "store")
               /\ (stored' <=> status' = "2xx")]_vars
RoundTrip == [][stored' => (Key(last') \in DOMAIN bucket' /\ bucket'[Key(last')] = Content(last'))]_vars
RejectChangesNothing == [][~stored' => bucket' = bucket]_vars
OnlyOneObject == [][\A k \in (DOMAIN bucket) \cup (DOMAIN bucket') :
                        k # Key(last') => (k \in DOMAIN bucket /\ k \in DOMAIN bucket' /\ bucket'[k] = bucket[k])]_vars
(* a request that can be stored can only name an object inside the bucket *)
NameInsideBucket == \A r \in Requests : Decision(r) # "reject" => InsideBucket(ObjectPath(r))
ASSUME NameInsideBucket
=============================================================================
