----------------------------- MODULE FileFormat -----------------------------
(* The documented v1 counter-file layout (properties C06 and C10; the        *)
(* corruption classes are shared with C05).  Written from the layout         *)
(* documentation (the `mappedFile` / `mappedHeader` comments and the          *)
(* EncodeStack description) and the property statements, not from the code.   *)
(*                                                                           *)
(*   0, 28                 "# telemetry/counter file v1\n"                    *)
(*   28, 4                 uint32 header length H (a multiple of 32)          *)
(*   32, H-32              metadata text "K: V\n...\n\n", NUL padded          *)
(*   H, 4                  uint32 allocation limit (0 = no record yet)        *)
(*   H+4, 4*512            hash table: heads of the per-bucket record lists   *)
(*   H+4+2048 .. limit     records, each at a multiple of 32:                 *)
(*        0,8 value  8,4 name length (low 24 bits)  12,4 next  16,n name      *)
(* A record never reaches the last 32-byte unit of its 16 KiB page.           *)
(* All integers are little endian; offsets are byte offsets in the file.      *)
EXTENDS Integers, Sequences, FiniteSets, Bitwise

PrefixLen == 28
MetaAt    == 32
Unit      == 32
Page      == 16384
NumHash   == 512
MaxName   == 4096
MaxMeta   == 512
HashOff   == 4
RecHdr    == 16

Up(x, u)     == ((x + u - 1) \div u) * u
HeaderLen(m) == Up(MetaAt + m, Unit)            \* m = byte length of the metadata text
TableAt(h)   == h + HashOff
FirstRec(h)  == h + HashOff + 4 * NumHash       \* lowest offset a record may have
RecSize(n)   == Up(RecHdr + n, Unit)            \* n = name length

(* ---- record placement ---------------------------------------------------- *)
(* A record of size s may start at the 32-aligned offset o iff no byte of it  *)
(* lies in the reserved last unit of a page (so it cannot straddle a page).   *)
Fits(o, s) == /\ o % Unit = 0
              /\ o \div Page = (o + s - 1) \div Page
              /\ (o + s - 1) % Page < Page - Unit
(* The allocator: the record goes to the lowest offset >= limit that fits.    *)
PlaceStart(h, limit, n) ==
    LET lim == IF limit = 0 THEN FirstRec(h) ELSE limit
        o   == Up(lim, Unit)
    IN  IF Fits(o, RecSize(n)) THEN o ELSE Up(lim, Page)
Place(h, limit, n) == <<PlaceStart(h, limit, n), PlaceStart(h, limit, n) + RecSize(n)>>
(* What the layout demands of ANY allocator (the property): the record starts  *)
(* at an aligned offset at or above the limit (ANY limit, aligned or not) and   *)
(* above the table, fits, and the new limit `end` covers it without entering a  *)
(* page tail.                                                                   *)
PlaceRel(h, limit, n, start, end) ==
    /\ start >= limit /\ start >= FirstRec(h)
    /\ end >= start + RecHdr + n
    /\ Fits(start, end - start)
(* declarative reading, used as a sanity theorem: `start` is the LEAST fitting *)
(* aligned offset >= lim                                                      *)
IsLeastFit(lim, start, s) ==
    /\ start >= lim /\ Fits(start, s)
    /\ \A i \in 0..((start - Up(lim, Unit)) \div Unit - 1) : ~Fits(Up(lim, Unit) + Unit * i, s)

(* ---- the hash fixed by the format: FNV-1a (32 bit) folded to 9 bits ------ *)
(* TLC integers are 32-bit signed, so h is kept as two 16-bit limbs <<hi,lo>>. *)
FnvOffset == <<33052, 40389>>                   \* 0x811c9dc5
FnvMul(h) == LET hi == h[1]  lo == h[2]  p == lo * 403 IN     \* * 16777619 = 2^24 + 403, mod 2^32
             << (hi * 403 + (p \div 65536) + (lo % 256) * 256) % 65536, p % 65536 >>
FnvStep(h, c) == FnvMul(<<h[1], h[2] ^^ c>>)
RECURSIVE FnvRange(_, _, _, _)                  \* bytes lo..hi of s folded into h (halving keeps TLC's stack shallow)
FnvRange(h, s, lo, hi) == IF lo > hi THEN h
                          ELSE IF lo = hi THEN FnvStep(h, s[lo])
                          ELSE LET mid == (lo + hi) \div 2
                                   h1  == FnvRange(h, s, lo, mid)
                               IN  IF h1[1] < 0 THEN h1 ELSE FnvRange(h1, s, mid + 1, hi)   \* (the test forces h1)
Fnv32(s) == FnvRange(FnvOffset, s, 1, Len(s))   \* s: sequence of bytes 0..255
Hash(s)  == LET h == Fnv32(s) IN (h[2] ^^ h[1]) % NumHash     \* (h ^ h>>16) % 512

(* ---- counter names --------------------------------------------------------*)
(* A name is [id, pre, preDitto, lines]: `pre` is the text before the first    *)
(* newline (preDitto: a stack counter whose prefix itself reads `".x`),         *)
(* `lines` the following lines, each [p, f] = import path and the rest after   *)
(* the last dot.  Texts are opaque identifiers >= 1.  p = Ditto is the ditto   *)
(* mark `"` (same import path as the frame above), p = NoDot a line without a  *)
(* dot, p = EmptyPath a line starting with its only dot.  A plain counter has  *)
(* no lines.  id identifies the whole raw byte string.                         *)
Ditto     == 0
NoDot     == -1
EmptyPath == -2
IsStack(n)  == Len(n.lines) > 0
HasDitto(n) == \E i \in DOMAIN n.lines : n.lines[i].p = Ditto
RECURSIVE LastPath(_, _)
LastPath(ls, i) == IF i = 0 THEN NoDot ELSE IF ls[i].p = Ditto THEN LastPath(ls, i - 1) ELSE ls[i].p
(* expansion of the compressed stack: a ditto takes the import path of the     *)
(* nearest frame above that carries one                                        *)
DecodeLines(ls) == [i \in DOMAIN ls |-> IF ls[i].p = Ditto THEN [p |-> LastPath(ls, i - 1), f |-> ls[i].f] ELSE ls[i]]
DecodeName(n)   == [pre |-> n.pre, lines |-> DecodeLines(n.lines)]
(* the compression the writer documents: a frame whose path equals the path of *)
(* the frame above is written with a ditto (paths >= 1)                        *)
EncodeLines(ls) == [i \in DOMAIN ls |-> IF i > 1 /\ ls[i].p = ls[i - 1].p THEN [p |-> Ditto, f |-> ls[i].f] ELSE ls[i]]
(* names for which every reading of the documentation gives the same expansion *)
NameInScope(n) == /\ \A i \in DOMAIN n.lines : n.lines[i].p = Ditto => LastPath(n.lines, i - 1) >= 1
                  /\ ~n.preDitto

(* ---- abstract file (the facts an independent walk of the bytes yields) ---- *)
(* [size, prefix, hdrLen, metaLen, meta: Seq([k, v, sep]), limit,              *)
(*  heads: Seq([b, off]) (non-zero heads), recs: Seq([off, nlen, next, ok,      *)
(*  name, val, bucket])]; ok = the name bytes lie inside the file and nlen > 0; *)
(*  bucket = Hash of the name bytes.                                            *)
SeqRange(s) == {s[i] : i \in DOMAIN s}
HasRec(f, off) == \E i \in DOMAIN f.recs : f.recs[i].off = off
RecAt(f, off)  == f.recs[CHOOSE i \in DOMAIN f.recs : f.recs[i].off = off]
Bad == -1
RECURSIVE Walk(_, _, _)
Walk(f, off, fuel) ==                 \* offsets of one chain; Bad marks where it breaks
    IF off = 0 THEN <<>>
    ELSE IF fuel = 0 \/ ~HasRec(f, off) THEN <<Bad>>
    ELSE LET r == RecAt(f, off) IN
         IF ~r.ok THEN <<Bad>> ELSE <<off>> \o Walk(f, r.next, fuel - 1)
Chain(f, i)   == Walk(f, f.heads[i].off, Len(f.recs) + 1)
RECURSIVE ConcatRange(_, _, _)                  \* ss[lo] \o ... \o ss[hi], by halving (shallow recursion)
ConcatRange(ss, lo, hi) == IF lo > hi THEN <<>> ELSE IF lo = hi THEN ss[lo]
                           ELSE ConcatRange(ss, lo, (lo + hi) \div 2) \o ConcatRange(ss, (lo + hi) \div 2 + 1, hi)
Concat(ss, i) == ConcatRange(ss, i, Len(ss))
Chains(f)     == [i \in DOMAIN f.heads |-> Chain(f, i)]
AllOffs(f)    == Concat(Chains(f), 1)
NoDup(s)      == \A i, j \in DOMAIN s : i # j => s[i] # s[j]
RecEnd(r)     == r.off + RecSize(r.nlen)

HeaderOK(f) == /\ f.size >= Page /\ f.size % Page = 0
               /\ f.prefix
               /\ f.metaLen <= MaxMeta
               /\ f.hdrLen = HeaderLen(f.metaLen)
MetaOK(f)   == /\ \A i \in DOMAIN f.meta : f.meta[i].sep
               /\ \A i, j \in DOMAIN f.meta : i # j => f.meta[i].k # f.meta[j].k
RecOK(f, b, r) == /\ r.ok /\ r.nlen >= 1 /\ r.nlen <= MaxName
                  /\ r.off >= FirstRec(f.hdrLen)
                  /\ Fits(r.off, RecSize(r.nlen))
                  /\ r.off + RecHdr + r.nlen <= f.limit          \* (the limit itself need not be a multiple of 32: a writer may
                                                                 \*  store the exact end of its last record)
                  /\ r.bucket = b
ChainsOK(f) ==
    LET ch   == Chains(f)
        offs == Concat(ch, 1)
        bks  == Concat([i \in DOMAIN ch |-> [k \in DOMAIN ch[i] |-> f.heads[i].b]], 1)   \* the bucket each element hangs in
    IN  /\ \A i, j \in DOMAIN f.heads : i # j => f.heads[i].b # f.heads[j].b
        /\ \A k \in DOMAIN offs : offs[k] # Bad                      \* every chain ends, inside the file
        /\ NoDup(offs)                                               \* no cycle, no shared tail
        /\ LET R == [k \in DOMAIN offs |-> RecAt(f, offs[k])] IN
            /\ \A k \in DOMAIN R : RecOK(f, bks[k], R[k])
            /\ \A i, j \in DOMAIN R : R[i].off < R[j].off => RecEnd(R[i]) <= R[j].off    \* records do not overlap
            /\ Cardinality({R[k].name.id : k \in DOMAIN R}) = Len(R)  \* no name twice
LimitOK(f)  == /\ f.limit <= f.size
               /\ f.limit = 0 \/ f.limit >= FirstRec(f.hdrLen)
WellFormed(f) == HeaderOK(f) /\ MetaOK(f) /\ LimitOK(f) /\ ChainsOK(f)

Linked(f)  == {RecAt(f, o) : o \in SeqRange(AllOffs(f)) \ {Bad}}
(* the expansion of the names is unambiguous and injective on this file        *)
InScope(f) == LET L == Linked(f) IN
              /\ \A r \in L : NameInScope(r.name)
              /\ Cardinality({DecodeName(r.name) : r \in L}) = Cardinality(L)

(* ---- what reading a file must give ---------------------------------------- *)
MetaOf(f)   == {<<f.meta[i].k, f.meta[i].v>> : i \in DOMAIN f.meta}
CountsOf(f) == {<<DecodeName(r.name), r.val>> : r \in Linked(f)}
AnyResult   == [kind |-> "any", meta |-> {}, counts |-> {}]           \* an error or any result, but it returns
(* wf = WellFormed(f), passed in so that it is computed once *)
ParseResultW(f, wf) == IF wf /\ InScope(f) THEN [kind |-> "ok", meta |-> MetaOf(f), counts |-> CountsOf(f)] ELSE AnyResult
ParseResult(f) == ParseResultW(f, WellFormed(f))

(* an observed outcome: [kind \in {"ok","err","panic","hang"}, meta: Seq([k,v]), counts: Seq([name, val])] *)
OutMeta(o)   == {<<o.meta[i].k, o.meta[i].v>> : i \in DOMAIN o.meta}
OutCounts(o) == {<<[pre |-> o.counts[i].name.pre, lines |-> o.counts[i].name.lines], o.counts[i].val>> : i \in DOMAIN o.counts}
VerdictW(f, o, wf) ==
    IF o.kind = "panic" THEN "panic"
    ELSE IF o.kind = "hang" THEN "hang"
    ELSE LET e == ParseResultW(f, wf) IN
         IF e.kind = "any" THEN "ok"
         ELSE IF o.kind # "ok" THEN "wellformed-rejected"
         ELSE IF OutMeta(o) # e.meta \/ Len(o.meta) # Cardinality(e.meta) THEN "unfaithful-meta"
         ELSE IF OutCounts(o) # e.counts \/ Len(o.counts) # Cardinality(e.counts) THEN "unfaithful-counts"
         ELSE "ok"
Verdict(f, o) == VerdictW(f, o, WellFormed(f))

(* ---- corruption classes (the first thing a reader meets, in file order) ---- *)
RECURSIVE CycleFrom(_, _, _, _)
(* the records on the cycle a chain runs into, {} if it ends or breaks *)
CycleFrom(f, off, seen, fuel) ==
    IF off = 0 \/ fuel = 0 \/ ~HasRec(f, off) THEN {}
    ELSE IF ~RecAt(f, off).ok THEN {}
    ELSE IF \E k \in DOMAIN seen : seen[k] = off
         THEN {RecAt(f, seen[k]) : k \in {k \in DOMAIN seen : k >= CHOOSE j \in DOMAIN seen : seen[j] = off}}
         ELSE CycleFrom(f, RecAt(f, off).next, Append(seen, off), fuel - 1)
Cycles(f)     == {c \in {CycleFrom(f, f.heads[i].off, <<>>, Len(f.recs) + 1) : i \in DOMAIN f.heads} : c # {}}
(* every record on some cycle is stored under a name that differs from its expansion *)
CycleDitto(f) == \E c \in Cycles(f) : \A r \in c : HasDitto(r.name)
ClassOfW(f, wf) ==
    IF wf THEN (IF InScope(f) THEN "wellformed" ELSE "name-out-of-scope")
    ELSE IF f.size < Page THEN "short"
    ELSE IF ~f.prefix THEN "bad-prefix"
    ELSE IF f.hdrLen < MetaAt THEN "hdrlen<32"
    ELSE IF f.hdrLen > Page THEN "hdrlen>page"
    ELSE IF f.hdrLen % Unit # 0 THEN "hdrlen-unaligned"
    ELSE IF ~HeaderOK(f) THEN "header"
    ELSE IF ~MetaOK(f) THEN "meta"
    ELSE IF CycleDitto(f) THEN "cycle-ditto"
    ELSE IF Cycles(f) # {} THEN "cycle"
    ELSE IF ~ChainsOK(f) THEN "chain"
    ELSE "limit"
ClassOf(f) == ClassOfW(f, WellFormed(f))
(* the class named in the signature of a crash / a non-returning call: the     *)
(* damage that causes it, whatever else is wrong with the file                  *)
PanicClassW(f, wf) == IF f.size >= Page /\ f.prefix /\ f.hdrLen < MetaAt THEN "hdrlen<32" ELSE ClassOfW(f, wf)
HangClassW(f, wf)  == IF CycleDitto(f) THEN "cycle-ditto" ELSE ClassOfW(f, wf)
=============================================================================
