---------------------------- MODULE CalendarUpl ----------------------------
(* The uploader side of C09 on SEVERAL files of one begin day: two programs  *)
(* started on the same UTC day under different week-end settings have files  *)
(* whose names carry the same date but whose recorded ends differ.  Each     *)
(* file is finished exactly when ITS recorded end is before the start of the *)
(* run, and is reported under the week named by ITS end — nothing about a    *)
(* file may be inferred from another file of the same day.                   *)
EXTENDS Calendar, FiniteSets, TLC
CONSTANTS Base,        \* the begin day (day number)
          Ends,        \* offsets (days after Base) of the recorded ends
          Starts       \* start instants of the run, in seconds relative to Base 00:00 UTC

VARIABLES e1, e2,      \* recorded ends (offsets) of program a's and program b's file
          v1, v2,      \* their counts
          start,       \* start instant (relative seconds)
          fin,         \* which of the two are finished: subset of {"a", "b"}
          reports,     \* function week offset -> total
          left         \* files left in place: subset of {"a", "b"}
vars == <<e1, e2, v1, v2, start, fin, reports, left>>

Fin(e, s) == Finished(Base + e, Base * DaySecs + s)
FinSet(a, b, s) == (IF Fin(a, s) THEN {"a"} ELSE {}) \cup (IF Fin(b, s) THEN {"b"} ELSE {})
EndOf(p, a, b) == IF p = "a" THEN a ELSE b
ValOf(p, x, y) == IF p = "a" THEN x ELSE y
Weeks(a, b, s) == {EndOf(p, a, b) : p \in FinSet(a, b, s)}
Reports(a, b, x, y, s) == [wk \in Weeks(a, b, s) |->
     (IF "a" \in FinSet(a, b, s) /\ a = wk THEN x ELSE 0) + (IF "b" \in FinSet(a, b, s) /\ b = wk THEN y ELSE 0)]

Init == /\ e1 \in Ends /\ e2 \in Ends /\ v1 = 1 /\ v2 = 2
        /\ start \in Starts
        /\ fin = FinSet(e1, e2, start)
        /\ reports = Reports(e1, e2, v1, v2, start)
        /\ left = {"a", "b"} \ fin
Next == UNCHANGED vars
Spec == Init /\ [][Next]_vars

(* sanity: what happens to one file does not depend on the other file's end *)
Independent == \A other \in Ends : ("a" \in FinSet(e1, other, start)) = ("a" \in fin)
WeekIsOwnEnd == \A p \in fin : EndOf(p, e1, e2) \in DOMAIN reports
NothingInvented == \A wk \in DOMAIN reports : reports[wk] > 0
=============================================================================
