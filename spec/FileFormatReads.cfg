SPECIFICATION Spec
INVARIANTS CurrentAllowed FreshIsExact NothingNewer
CHECK_DEADLOCK FALSE
CONSTANTS
 NReaders = 3
 Kinds = {"inc", "new", "grow"}
 MaxOps = 7
