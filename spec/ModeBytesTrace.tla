--------------------------- MODULE ModeBytesTrace ---------------------------
(* code -> model for ModeBytes.tla: one line of c05mode.ndjson per (content of *)
(* the mode file, entry point) that was run on the real packages:             *)
(*   [c: the content class, ep, o: the observed outcome]                      *)
EXTENDS ModeBytes, Json
Trace == ndJsonDeserialize("c05mode.ndjson")
Bad == {<<i, Verdict(Trace[i].c, Trace[i].ep, Trace[i].o)>> : i \in {j \in 1..Len(Trace) : Verdict(Trace[j].c, Trace[j].ep, Trace[j].o) # "ok"}}
ASSUME PrintT(<<"C05MBAD", Bad>>)
VARIABLE l
TInit == l = 1 /\ content = Junk("spaces") /\ ep = "counter" /\ exp = Expected(Junk("spaces"), "counter")
TNext == l < Len(Trace) /\ l' = l + 1 /\ UNCHANGED vars
TSpec == TInit /\ [][TNext]_<<l, vars>>
=============================================================================
