------------------------------ MODULE FaultsMC ------------------------------
(* Default constants for Faults.tla (checks/c05.py generates the same module  *)
(* with a seeded choice of errno pairs and puts the recorded call sequences   *)
(* of the current tree next to it as c05rec.ndjson).                          *)
EXTENDS Faults
MCErrnos     == {"ENOENT", "EACCES", "ENOSPC", "EIO"}
MCPairErrnos == {<<"EIO", "ENOSPC">>}
=============================================================================
