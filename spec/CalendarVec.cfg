INIT Init
NEXT Next
INVARIANT Sane
CHECK_DEADLOCK FALSE
CONSTANTS
  Days <- MCDays
  Bytes <- MCBytes
