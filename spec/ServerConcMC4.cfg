SPECIFICATION CSpec
INVARIANTS CStoredAreValid RoundResult CAnswers
PROPERTIES CRejectChangesNothing
CHECK_DEADLOCK FALSE
CONSTANTS
 CfgGOOS <- MCGOOS
 CfgGOARCH <- MCGOARCH
 CfgGoVersion <- MCGoVersion
 CfgPrograms <- MCPrograms
 Limit <- MCLimit
 InitBuckets <- MCInit
 Requests = {}
 ConcRequests <- MCConc
 MaxFlight = 3
 MaxReq = 4
