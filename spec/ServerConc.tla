----------------------------- MODULE ServerConc -----------------------------
(* C12 -- requests in flight at the same time.  Server.tla handles one       *)
(* request per step; a server handles many at once, and a client that gets   *)
(* no answer sends the same report again while the first copy is still being *)
(* stored.  Here a request Starts and later Finishes, so that TLC            *)
(* interleaves the lifetimes of up to MaxFlight requests:                    *)
(*   CStart(r)    the request arrives (its writer may open any time from now)*)
(*   CFinish(x)   it is answered: stored and 2xx, or refused and 4xx, as     *)
(*                Decision says -- whatever else was in flight               *)
(* Requests that overlap and name the SAME object must carry the SAME        *)
(* report (a retry): which bytes a collision of two different reports        *)
(* leaves behind is not specified.  For everything else the clauses of       *)
(* Server.tla hold unchanged: every answer is the one Decision gives, and    *)
(* once nothing is in flight every object is a complete report that was      *)
(* sent for that name.                                                       *)
EXTENDS ServerMC

CONSTANTS ConcRequests,   \* the requests that may be in flight together
          MaxFlight       \* how many at a time
VARIABLES inflight,       \* set of [id, r]
          round,          \* requests started since the bucket was last quiescent
          answers         \* sequence of [id, status] in the order of the answers
cvars == <<bucket, b0, last, status, stored, nreq, inflight, round, answers>>

CInit == /\ b0 \in DOMAIN InitBuckets /\ bucket = InitBuckets[b0]
         /\ last = [method |-> "none"] /\ status = "none" /\ stored = FALSE /\ nreq = 0
         /\ inflight = {} /\ round = {} /\ answers = <<>>

Storing(r) == Decision(r) = "store"
Compatible(r) == \A x \in round : (Storing(r) /\ Storing(x.r) /\ Key(x.r) = Key(r)) => Content(x.r) = Content(r)

CStart(r) == /\ Cardinality(inflight) < MaxFlight
             /\ nreq < MaxReq
             /\ Decision(r) # "either"
             /\ Compatible(r)
             /\ inflight' = inflight \cup {[id |-> nreq + 1, r |-> r]}
             /\ round' = (IF inflight = {} THEN {} ELSE round) \cup {[id |-> nreq + 1, r |-> r]}
             /\ nreq' = nreq + 1
             /\ last' = r /\ status' = "started" /\ stored' = FALSE
             /\ UNCHANGED <<bucket, b0, answers>>

CFinish(x) == /\ inflight' = inflight \ {x}
              /\ last' = x.r
              /\ IF Storing(x.r)
                 THEN bucket' = Put(bucket, Key(x.r), Content(x.r)) /\ status' = "2xx" /\ stored' = TRUE
                 ELSE bucket' = bucket /\ status' = "4xx" /\ stored' = FALSE
              /\ answers' = Append(answers, [id |-> x.id, status |-> status'])
              /\ UNCHANGED <<b0, nreq, round>>

CNext == (\E r \in ConcRequests : CStart(r)) \/ (\E x \in inflight : CFinish(x))
CSpec == CInit /\ [][CNext]_cvars

(* ---- the property ----------------------------------------------------------- *)
Quiescent == inflight = {}
(* every object is a complete valid report under its own name (also while    *)
(* others are in flight: a stored object is never a mixture)                 *)
CStoredAreValid == StoredAreValid
(* the order in which overlapping identical uploads finish does not matter *)
RoundResult == Quiescent =>
    \A x \in round : Storing(x.r) => (Key(x.r) \in DOMAIN bucket /\ bucket[Key(x.r)] = Content(x.r))
CAnswers == \A i \in DOMAIN answers : answers[i].status \in {"2xx", "4xx"}
CRejectChangesNothing == [][(status' = "4xx") => bucket' = bucket]_cvars
=============================================================================
