---------------------------- MODULE ChartConfig ----------------------------
(* Property C17: the chart-configuration record syntax and the generation   *)
(* of the upload configuration from chart records.  Operators are written   *)
(* from the package documentation of internal/chartconfig and the property  *)
(* text, not from the code.                                                 *)
(*                                                                          *)
(* PART A -- record syntax.  A text is a sequence of lines; the abstraction *)
(* (the driver's lexer, written from the documentation) turns every line    *)
(* into one of                                                              *)
(*    sep      the line "---"                                               *)
(*    blank    only white space and/or a comment                            *)
(*    field    <key>:<value> [# comment]   (key at column 0, value non-empty*)
(*             after trimming, no '#'; braces only in a counter value of    *)
(*             the form  prefix{b1,...,bn}  written on one line)            *)
(*    copen    counter:<prefix>{b1,...,bk[,]   k >= 0  (list continues)     *)
(*    cmid     [,]b1,...,bk[,]                 k >= 1                       *)
(*    cclose   [,]b1,...,bk}                   k >= 0                       *)
(*    junk     anything else                                                *)
(* (lead / trail tell whether the piece starts / ends with a comma: "within *)
(* bucket braces newlines are ignored", so the pieces of a list written     *)
(* over several lines must join to  prefix{b1,...,bn}: exactly one comma    *)
(* between two buckets, none after "{" or before "}".)                      *)
(* Values are opaque strings (numeric fields: canonical decimal strings);   *)
(* a counter value is [pre, bs]: bs = <<>> for a plain counter name `pre`,  *)
(* else the counter expression  pre{bs[1],...,bs[n]}.                       *)
EXTENDS Integers, Sequences, FiniteSets, SequencesExt

StrKeys == {"title", "description", "type", "program", "module", "version"}
NumKeys == {"depth", "error"}
ScalarKeys == StrKeys \cup NumKeys
AllKeys == ScalarKeys \cup {"issue", "counter"}

NoCounter == [pre |-> "", bs |-> <<>>]
EmptyRec == [title |-> "", description |-> "", type |-> "", program |-> "", module |-> "",
             version |-> "", depth |-> "0", error |-> "0", issue |-> <<>>, counter |-> NoCounter]

LineC(k, key, val, bs, lead, trail) == [k |-> k, key |-> key, val |-> val, bs |-> bs, lead |-> lead, trail |-> trail]
Line(k, key, val, bs) == LineC(k, key, val, bs, FALSE, FALSE)

(* pend: the pieces read so far end with a comma *)
NoAcc == [open |-> FALSE, pre |-> "", bs |-> <<>>, pend |-> FALSE]

(* may a piece with buckets (lead comma or not) follow what has been read? *)
Joins(acc, ln) == IF acc.bs = <<>> THEN ~ln.lead /\ ~acc.pend
                  ELSE (ln.lead /\ ~acc.pend) \/ (~ln.lead /\ acc.pend)
S0 == [ok |-> TRUE, recs |-> <<>>, cur |-> EmptyRec, set |-> {}, acc |-> NoAcc]

Bad(s) == [s EXCEPT !.ok = FALSE]

(* "Multiple records are separated by --- lines"; a record consists of its  *)
(* field lines, so a stretch without any field line is no record            *)
Flush(s) == [s EXCEPT !.recs = IF s.set = {} THEN @ ELSE Append(@, s.cur),
                      !.cur = EmptyRec, !.set = {}]

Step(s, ln) ==
    IF ~s.ok THEN s
    ELSE CASE ln.k = "blank" -> s                               \* comments and white space never matter
           [] ln.k = "sep" -> IF s.acc.open THEN Bad(s) ELSE Flush(s)
           [] ln.k = "field" ->
                IF s.acc.open THEN Bad(s)                       \* a field inside an open bucket list
                ELSE IF ln.key = "issue"                        \* "additional issue: lines" accumulate
                     THEN [s EXCEPT !.cur.issue = Append(@, ln.val), !.set = @ \cup {"issue"}]
                ELSE IF ln.key \in s.set THEN Bad(s)            \* only issue may be repeated
                ELSE IF ln.key = "counter"
                     THEN [s EXCEPT !.cur.counter = [pre |-> ln.val, bs |-> ln.bs], !.set = @ \cup {"counter"}]
                ELSE IF ln.key \in ScalarKeys
                     THEN [s EXCEPT !.cur[ln.key] = ln.val, !.set = @ \cup {ln.key}]
                ELSE Bad(s)
           [] ln.k = "copen" ->
                IF s.acc.open \/ "counter" \in s.set \/ ln.lead \/ (ln.bs = <<>> /\ ln.trail) THEN Bad(s)
                ELSE [s EXCEPT !.acc = [open |-> TRUE, pre |-> ln.val, bs |-> ln.bs, pend |-> ln.trail]]
           [] ln.k = "cmid" ->
                IF ~s.acc.open \/ ln.bs = <<>> \/ ~Joins(s.acc, ln) THEN Bad(s)
                ELSE [s EXCEPT !.acc.bs = @ \o ln.bs, !.acc.pend = ln.trail]
           [] ln.k = "cclose" ->                                \* newlines inside the braces are ignored
                IF ~s.acc.open THEN Bad(s)
                ELSE IF ln.bs = <<>> /\ (ln.lead \/ s.acc.pend \/ s.acc.bs = <<>>) THEN Bad(s)
                ELSE IF ln.bs # <<>> /\ ~Joins(s.acc, ln) THEN Bad(s)
                ELSE [s EXCEPT !.cur.counter = [pre |-> s.acc.pre, bs |-> s.acc.bs \o ln.bs],
                               !.set = @ \cup {"counter"}, !.acc = NoAcc]
           [] OTHER -> Bad(s)

Fold(s, lines) == FoldLeft(Step, s, lines)      \* Step applied line by line

(* the meaning of a text: its records, or "unspecified" when the text is    *)
(* not a rendering of records in the documented syntax                      *)
Unspecified == [ok |-> FALSE, recs |-> <<>>]
Finish(s) == IF ~s.ok \/ s.acc.open THEN Unspecified ELSE [ok |-> TRUE, recs |-> Flush(s).recs]
ParseLines(lines) == Finish(Fold(S0, lines))

(* ------------------------------------------------------------------------ *)
(* PART B -- generation of the upload configuration.                        *)
(* A (validated) chart record is abstracted to                              *)
(*    [prog, ctr, depth, min]   min = 0: no version field (all versions),   *)
(*                              else the RANK of its minimum version in the *)
(*                              total order of that program's version kind  *)
(*                              (Go versions for cmd/..., semver otherwise) *)
(* and the versions known for a program to a set of ranks.                  *)
Rng(s) == {s[i] : i \in 1..Len(s)}
MinOf(S) == CHOOSE x \in S : \A y \in S : x <= y

ProgsOf(recs) == {recs[i].prog : i \in 1..Len(recs)}
MinsOf(recs, p) == {recs[i].min : i \in {j \in 1..Len(recs) : recs[j].prog = p}}

(* the smallest minimum version among the program's records; a record       *)
(* without version applies to all versions                                  *)
MinOfMins(recs, p) == IF 0 \in MinsOf(recs, p) THEN 0 ELSE MinOf(MinsOf(recs, p))

(* every known version not older than that                                  *)
Required(recs, p, known) == {v \in known : MinOfMins(recs, p) = 0 \/ v >= MinOfMins(recs, p)}

(* how often counter expression c must be listed as a counter / as a stack  *)
(* of depth d under program p: a stack when it has a depth, else a counter  *)
NCounter(recs, p, c) == Cardinality({i \in 1..Len(recs) : recs[i].prog = p /\ recs[i].ctr = c /\ recs[i].depth = 0})
NStack(recs, p, c, d) == Cardinality({i \in 1..Len(recs) : recs[i].prog = p /\ recs[i].ctr = c /\ recs[i].depth = d /\ d > 0})

(* the same minimum computed the way a generator would, record by record    *)
RECURSIVE MinFold(_, _, _, _)
MinFold(recs, p, i, m) ==      \* m = -1: no record of p seen yet
    IF i > Len(recs) THEN m
    ELSE IF recs[i].prog # p THEN MinFold(recs, p, i + 1, m)
    ELSE LET x == recs[i].min IN
         MinFold(recs, p, i + 1, IF m = -1 THEN x ELSE IF m = 0 \/ x = 0 THEN 0 ELSE IF x < m THEN x ELSE m)

(* ------------------------------------------------------------------------ *)
(* PART C -- version padding: the padded list contains all real versions,   *)
(* is sorted and free of duplicates (versions as ranks in semver order)     *)
PadOK(in, out) == /\ Rng(in) \subseteq Rng(out)
                  /\ \A i \in 1..(Len(out) - 1) : out[i] < out[i + 1]
=============================================================================
