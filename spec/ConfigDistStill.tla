--------------------------- MODULE ConfigDistStill ---------------------------
(* X02, guarantee G4, model -> code: configgen keeps the published           *)
(* config.json when  contains(current, minimal)  holds -- "contains reports  *)
(* whether outer contains all program versions of inner, and is otherwise    *)
(* equivalent to inner".  Pairs (outer, inner) are made from a base          *)
(* configuration by at most MaxEdits edits distributed over the two sides.   *)
(* Edits that reorder lists whose order carries no meaning (counters inside  *)
(* a program, GOOS / GOARCH / GoVersion) are not enumerated: whether they    *)
(* are "equivalent" is not documented.                                       *)
EXTENDS ConfigDist, TLC
CONSTANTS Base,        \* the base configuration (two programs: 1 with two counters, 2 with a counter and a stack)
          MaxEdits

Edits == {"addver1", "dropver1", "swapver1", "dupver1", "addver2",
          "addctr1", "dropctr1", "rate1", "renamectr1", "depth2", "addstk2", "dropstk2", "stkrate2",
          "addprog", "dropprog2", "swapprogs",
          "goos+", "goos-", "goarch+", "gover+", "gover-", "samplerate"}

SetProg(c, k, f, v) == [c EXCEPT !.progs[k][f] = v]
Butlast(s) == SubSeq(s, 1, Len(s) - 1)
Swap2(s) == IF Len(s) < 2 THEN s ELSE <<s[2], s[1]>> \o SubSeq(s, 3, Len(s))
HasProgs(c, k) == Len(c.progs) >= k
Apply(c, e) ==
    CASE e = "addver1" /\ HasProgs(c, 1) -> SetProg(c, 1, "versions", Append(c.progs[1].versions, 7 + Len(c.progs[1].versions)))
      [] e = "dropver1" /\ HasProgs(c, 1) /\ c.progs[1].versions # <<>> -> SetProg(c, 1, "versions", Butlast(c.progs[1].versions))
      [] e = "swapver1" /\ HasProgs(c, 1) -> SetProg(c, 1, "versions", Swap2(c.progs[1].versions))
      [] e = "dupver1" /\ HasProgs(c, 1) /\ c.progs[1].versions # <<>> -> SetProg(c, 1, "versions", Append(c.progs[1].versions, c.progs[1].versions[1]))
      [] e = "addver2" /\ HasProgs(c, 2) -> SetProg(c, 2, "versions", Append(c.progs[2].versions, 7 + Len(c.progs[2].versions)))
      [] e = "addctr1" /\ HasProgs(c, 1) -> SetProg(c, 1, "counters", Append(c.progs[1].counters, [name |-> 8, rate |-> 100, depth |-> 0]))
      [] e = "dropctr1" /\ HasProgs(c, 1) /\ c.progs[1].counters # <<>> -> SetProg(c, 1, "counters", Butlast(c.progs[1].counters))
      [] e = "rate1" /\ HasProgs(c, 1) /\ c.progs[1].counters # <<>> -> [c EXCEPT !.progs[1].counters[1].rate = 150 - @]
      [] e = "renamectr1" /\ HasProgs(c, 1) /\ c.progs[1].counters # <<>> -> [c EXCEPT !.progs[1].counters[1].name = 9]
      [] e = "depth2" /\ HasProgs(c, 2) /\ c.progs[2].stacks # <<>> -> [c EXCEPT !.progs[2].stacks[1].depth = @ + 1]
      [] e = "addstk2" /\ HasProgs(c, 2) -> SetProg(c, 2, "stacks", Append(c.progs[2].stacks, [name |-> 8, rate |-> 100, depth |-> 4]))
      [] e = "dropstk2" /\ HasProgs(c, 2) /\ c.progs[2].stacks # <<>> -> SetProg(c, 2, "stacks", Butlast(c.progs[2].stacks))
      [] e = "stkrate2" /\ HasProgs(c, 2) /\ c.progs[2].stacks # <<>> -> [c EXCEPT !.progs[2].stacks[1].rate = 150 - @]
      [] e = "addprog" -> [c EXCEPT !.progs = Append(@, [name |-> 3 + Len(@), versions |-> <<1>>, counters |-> <<>>, stacks |-> <<>>])]
      [] e = "dropprog2" /\ HasProgs(c, 2) -> [c EXCEPT !.progs = <<@[1]>> \o SubSeq(@, 3, Len(@))]
      [] e = "swapprogs" -> [c EXCEPT !.progs = Swap2(@)]
      [] e = "goos+" -> [c EXCEPT !.goos = Append(@, 7 + Len(@))]
      [] e = "goos-" /\ c.goos # <<>> -> [c EXCEPT !.goos = Butlast(@)]
      [] e = "goarch+" -> [c EXCEPT !.goarch = Append(@, 7 + Len(@))]
      [] e = "gover+" -> [c EXCEPT !.gover = Append(@, 7 + Len(@))]
      [] e = "gover-" /\ c.gover # <<>> -> [c EXCEPT !.gover = Butlast(@)]
      [] e = "samplerate" -> [c EXCEPT !.rate = 150 - @]
      [] OTHER -> c
RECURSIVE ApplyAll(_, _)
ApplyAll(c, es) == IF es = <<>> THEN c ELSE ApplyAll(Apply(c, Head(es)), Tail(es))

EditSeqs(k) == UNION {[1..m -> Edits] : m \in 0..k}

VARIABLES eo, ei, outer, inner, want
vars == <<eo, ei, outer, inner, want>>
Init == /\ eo \in EditSeqs(MaxEdits) /\ ei \in EditSeqs(MaxEdits)
        /\ Len(eo) + Len(ei) <= MaxEdits
        /\ outer = ApplyAll(Base, eo) /\ inner = ApplyAll(Base, ei)
        /\ want = ContainsSpec(outer, inner)
Next == UNCHANGED vars
Spec == Init /\ [][Next]_vars

(* ---- what "still valid" buys: nothing accepted under inner is lost ---- *)
Sound == want => (Accepts(inner) \subseteq Accepts(outer) /\ inner.rate = outer.rate)
Reflexive == ContainsSpec(outer, outer) /\ ContainsSpec(inner, inner)
(* mutual containment = same acceptance *)
Antisymmetric == (want /\ ContainsSpec(inner, outer)) => Accepts(inner) = Accepts(outer)
(* only additional versions may separate the two sides *)
OnlyVersionsDiffer == want => \A n \in ProgNames(inner) :
    /\ ProgOf(outer, n).counters = ProgOf(inner, n).counters
    /\ ProgOf(outer, n).stacks = ProgOf(inner, n).stacks
=============================================================================
