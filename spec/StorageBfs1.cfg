SPECIFICATION SpecBfs
CONSTRAINT Bounded
INVARIANTS ResultFromHistory Confined NoConflicts
PROPERTIES OnlyWritesChange
CHECK_DEADLOCK FALSE
CONSTANTS
 Buckets = {"u"}
 Names <- BfsNames
 Datas = {"d0", "d1"}
 Prefixes <- BfsPrefixes
 MaxOps = 4
 Styles = {"write"}
 EmptyData = "d0"
 CopyOn = FALSE
 CopyMiss = {}
 Handles = {1}
