------------------------------ MODULE StackName ------------------------------
(* Property C15: names of stack counters.                                    *)
(*                                                                           *)
(* Written from the property text and the documentation of the name format:  *)
(* a stack counter name is the counter's own name, a newline, and one line   *)
(* per frame "IMPORTPATH.FUNC:LINE,+0xOFFSET"; a frame whose import path is  *)
(* the same as that of the frame before it may be abbreviated to the ditto   *)
(* mark "\"" followed by ".FUNC:..."; a name longer than the limit is cut    *)
(* and ends in the marker "\ntruncated\n".  (IMPORTPATH, FUNC) are the parts *)
(* of the runtime's function name before and after its LAST dot, so IMPORT-  *)
(* PATH may itself contain dots (receivers, "[...]"), FUNC never does, and   *)
(* IMPORTPATH is empty for a symbol without a dot.                           *)
(*                                                                           *)
(* Strings are sequences of one-character strings; only three characters     *)
(* have meaning.                                                             *)
EXTENDS Integers, Sequences, FiniteSets, TLC

Q == "\""                        \* the ditto mark
D == "."
N == "\n"
CONSTANT MaxLen                  \* the name-size limit (4096 in reality)
Marker == <<N, "T", N>>          \* stands for "\ntruncated\n"

Max(S) == CHOOSE x \in S : \A y \in S : x >= y
HasNL(s) == \E i \in 1..Len(s) : s[i] = N

(* "a name is treated as a stack counter exactly when it contains a newline" *)
IsStack(s) == HasNL(s)

RECURSIVE Split(_)
Split(s) == IF ~HasNL(s) THEN <<s>>
            ELSE LET i == CHOOSE j \in 1..Len(s) : s[j] = N /\ \A k \in 1..(j - 1) : s[k] # N
                 IN <<SubSeq(s, 1, i - 1)>> \o Split(SubSeq(s, i + 1, Len(s)))
RECURSIVE Join(_)
Join(ls) == IF Len(ls) = 1 THEN ls[1] ELSE ls[1] \o <<N>> \o Join(Tail(ls))

LastDot(l) == LET S == {i \in 1..Len(l) : l[i] = D} IN IF S = {} THEN 0 ELSE Max(S)
PathOf(l) == SubSeq(l, 1, LastDot(l) - 1)       \* import path (<<>> if none)
RestOf(l) == SubSeq(l, LastDot(l), Len(l))      \* from the last dot on

(* ---- frames --------------------------------------------------------------*)
(* fn stands for "FUNC:LINE,+0xOFFSET" (no dot, no quote, no newline); inst  *)
(* is what the rendering does not show: which instantiation of a generic     *)
(* function the frame belongs to (the runtime prints type arguments as ...). *)
Render(fr) == fr.path \o <<D>> \o fr.fn
Lines(prefix, frs) == <<prefix>> \o [i \in 1..Len(frs) |-> Render(frs[i])]
Uncompressed(prefix, frs) == Join(Lines(prefix, frs))

(* a frame may be abbreviated iff it HAS an import path and the frame before *)
(* it has the same one (an empty import path is nothing to abbreviate, and   *)
(* the first frame has no predecessor)                                       *)
CanDitto(frs, i) == i > 1 /\ frs[i].path # <<>> /\ frs[i].path = frs[i - 1].path
Dittoable(frs) == {i \in 1..Len(frs) : CanDitto(frs, i)}
EncLine(frs, i, ds) == IF i \in ds THEN <<Q, D>> \o frs[i].fn ELSE Render(frs[i])
EncodeWith(prefix, frs, ds) == Join(<<prefix>> \o [i \in 1..Len(frs) |-> EncLine(frs, i, ds)])
Encode(prefix, frs) == EncodeWith(prefix, frs, Dittoable(frs))      \* the shortest form
Truncate(e) == IF Len(e) <= MaxLen THEN e ELSE SubSeq(e, 1, MaxLen - Len(Marker)) \o Marker
EncodeT(prefix, frs) == Truncate(Encode(prefix, frs))
Marked(e) == Len(e) >= Len(Marker) /\ SubSeq(e, Len(e) - Len(Marker) + 1, Len(e)) = Marker

(* ---- expanding a name -------------------------------------------------- *)
(* The first line is the counter's own name.  `last` is the import path of   *)
(* the nearest earlier frame line that spells one out.                       *)
RECURSIVE DecFrom(_, _, _)
DecFrom(ls, k, last) ==
  IF k > Len(ls) THEN ls
  ELSE LET l == ls[k] IN
       IF LastDot(l) <= 1 THEN DecFrom(ls, k + 1, last)                 \* no import path here
       ELSE IF PathOf(l) = <<Q>>
            THEN DecFrom([ls EXCEPT ![k] = last \o RestOf(l)], k + 1, last)
            ELSE DecFrom(ls, k + 1, PathOf(l))
Decode(s) == IF ~HasNL(s) THEN s ELSE Join(DecFrom(Split(s), 2, <<>>))

(* ---- the same at the level of lines ------------------------------------- *)
(* A line is [k, v, r]: k = "path" (v is its import path), "ditto", or       *)
(* "none" (no import path); r is the rest from the last dot on (the whole    *)
(* line if it has no dot).  The trace module uses this form with interned    *)
(* strings; AbsCommutes (StackNameMC) ties it to the character level.        *)
AbsLine(l) == IF LastDot(l) <= 1 THEN [k |-> "none", v |-> <<>>, r |-> l]
              ELSE IF PathOf(l) = <<Q>> THEN [k |-> "ditto", v |-> <<>>, r |-> RestOf(l)]
              ELSE [k |-> "path", v |-> PathOf(l), r |-> RestOf(l)]
Abs(s) == LET ls == Split(s) IN [i \in 1..Len(ls) |-> AbsLine(ls[i])]
LEq(a, b) == a.k = b.k /\ a.r = b.r /\ (a.k = "path" => a.v = b.v)
LinesEq(a, b) == Len(a) = Len(b) /\ \A i \in 1..Len(a) : LEq(a[i], b[i])
RECURSIVE LDecFrom(_, _, _)
LDecFrom(ls, k, last) ==          \* last: a "path" line, or a "none" line when no path was seen
  IF k > Len(ls) THEN ls
  ELSE IF ls[k].k = "ditto"
       THEN LDecFrom([ls EXCEPT ![k] = [k |-> last.k, v |-> last.v, r |-> ls[k].r]], k + 1, last)
       ELSE IF ls[k].k = "none" THEN LDecFrom(ls, k + 1, last)
       ELSE LDecFrom(ls, k + 1, ls[k])
LDec(ls) == IF Len(ls) <= 1 THEN ls ELSE LDecFrom(ls, 2, [k |-> "none", v |-> ls[1].v, r |-> ls[1].r])

RECURSIVE ToStr(_)
ToStr(s) == IF s = <<>> THEN "" ELSE s[1] \o ToStr(Tail(s))
=============================================================================
