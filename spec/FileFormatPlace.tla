-------------------------- MODULE FileFormatPlace --------------------------
(* C10, the arithmetic fixed by the v1 format: every state is one input      *)
(* vector together with the output FileFormat.tla demands                    *)
(*   place : <<header length, allocation limit, name length>> -> <<start,end>> *)
(*   hash  : byte string -> bucket                                           *)
(*   hdr   : metadata length -> header length (-1: refused, above the cap)    *)
(* TLC checks the sanity theorems below on every vector; the harness replays  *)
(* each vector into the real place / hash / mappedHeader.                     *)
EXTENDS FileFormat, TLC
CONSTANTS HdrLens,     \* header lengths tried for the first record (limit = 0)
          LimitUnits,  \* allocation limits tried, in units of 32 bytes
          NameLens,    \* name lengths
          UUnits,      \* allocation limits that are NOT multiples of 32 (a foreign writer's exact record end):
          Resid,       \*   32 * u + r for u in UUnits, r in Resid
          NameLensU,   \* name lengths tried with them
          Alphabet,    \* bytes for the exhaustive short names
          LongNames,   \* further byte strings
          MetaLens     \* metadata lengths
VARIABLE v

PlaceFirst == {[kind |-> "place", x |-> <<h, 0, n>>, y |-> Place(h, 0, n)] : h \in HdrLens, n \in NameLens}
PlaceNext  == {[kind |-> "place", x |-> <<MetaAt, Unit * u, n>>, y |-> Place(MetaAt, Unit * u, n)] : u \in LimitUnits, n \in NameLens}
PlaceOdd   == {[kind |-> "place", x |-> <<MetaAt, Unit * u + r, n>>, y |-> Place(MetaAt, Unit * u + r, n)] : u \in UUnits, r \in Resid, n \in NameLensU}
Short     == {<<a>> : a \in Alphabet} \cup {<<a, b>> : a \in Alphabet, b \in Alphabet}
HashVecs  == {[kind |-> "hash", x |-> s, y |-> <<Hash(s)>>] : s \in Short \cup LongNames}
HdrVecs   == {[kind |-> "hdr", x |-> <<m>>, y |-> <<IF m <= MaxMeta THEN HeaderLen(m) ELSE -1>>] : m \in MetaLens}

Init == v \in PlaceFirst \/ v \in PlaceNext \/ v \in PlaceOdd \/ v \in HashVecs \/ v \in HdrVecs     \* (a disjunction: TLC enumerates each family once)
Next == UNCHANGED v

(* published FNV-1a test vectors: "", "a", "foobar" *)
ASSUME Fnv32(<<>>) = <<33052, 40389>>
ASSUME Fnv32(<<97>>) = <<58380, 10540>>
ASSUME Fnv32(<<102, 111, 111, 98, 97, 114>>) = <<49052, 63848>>

PlaceSane == v.kind = "place" =>
    LET h == v.x[1]  lim == IF v.x[2] = 0 THEN FirstRec(h) ELSE v.x[2]  s == RecSize(v.x[3])
        start == v.y[1]  end == v.y[2] IN
    /\ start >= lim /\ start >= FirstRec(h)
    /\ end = start + s /\ s >= RecHdr + v.x[3] /\ s < RecHdr + v.x[3] + Unit
    /\ Fits(start, s)
    /\ PlaceRel(h, v.x[2], v.x[3], start, end)    \* the documented allocator meets what the layout demands
    /\ IsLeastFit(lim, start, s)               \* nothing is wasted
    /\ start - lim < s + 2 * Unit
HashSane  == v.kind = "hash" => v.y[1] \in 0..(NumHash - 1)
HdrSane   == (v.kind = "hdr" /\ v.y[1] # -1) =>
    /\ v.y[1] % Unit = 0 /\ v.y[1] >= MetaAt + v.x[1] /\ v.y[1] < MetaAt + v.x[1] + Unit
    /\ FirstRec(v.y[1]) + RecSize(MaxName) < Page - Unit     \* the first record always fits in page 0
=============================================================================
